//! Scripted children (leaf futures / streams), the waker registry, and the `Tap` wrapper that turns every
//! combinator instance — inner or outermost — into an observed node of the shape tree.

use crate::model;
use crate::world::*;
use futures_core::Stream;
use std::future::Future;
use std::marker::PhantomPinned;
use std::pin::Pin;
use std::sync::atomic::{AtomicBool, AtomicU64, Ordering};
use std::sync::Arc;
use std::task::{Context, Poll, Wake, Waker};

pub type R = Result<Val, Val>;

/// marker payload of an injected panic
pub struct Injected;

/// watchdog hooks: a hang inside `wake()` is a (self-)deadlock candidate, see main.rs
pub static IN_WAKE: AtomicBool = AtomicBool::new(false);
pub static PROGRESS: AtomicU64 = AtomicU64::new(0);

// ------------------------------------------------------------------------------------------------
// engine T: state shared with the waker-firing threads (see engine_t.rs)

pub struct TTable {
    /// wakers registered by `PendLater` steps and not yet taken by a firing thread
    pub wakers: Vec<(Cid, Waker)>,
    /// firing threads that hold a waker taken from the table and have not finished invoking it
    pub in_flight: usize,
    /// highest epoch of a root waker that has been invoked
    pub woken_epoch: usize,
    pub stop: bool,
    pub fires: u64,
    pub fires_stale: u64,
    pub root_wakes: u64,
    pub root_wakes_stale: u64,
    /// epoch of the root waker presented in the most recent poll (for the stale statistics only)
    pub cur_epoch: usize,
    pub wake_panics: Vec<String>,
    /// C16 under threads, per child: (number of wake() calls announced so far, calls announced and not yet returned).
    /// A call is announced under this lock BEFORE wake() is invoked and retired after it returned.
    pub fired: std::collections::BTreeMap<Cid, (u64, u32)>,
}
pub struct TShared {
    pub t: std::sync::Mutex<TTable>,
    pub cv_main: std::sync::Condvar,
    pub cv_workers: std::sync::Condvar,
    /// rendezvous ("storm" executions): a firing thread announces that it is about to call wake() and briefly spins
    /// until the task thread answers by starting a (spurious) poll, so that wake() and poll() really overlap
    pub rdv: AtomicBool,
    pub about: std::sync::atomic::AtomicUsize,
    pub go: std::sync::atomic::AtomicUsize,
}
impl TShared {
    pub fn new() -> TShared {
        TShared {
            t: std::sync::Mutex::new(TTable { wakers: vec![], in_flight: 0, woken_epoch: 0, stop: false, fires: 0, fires_stale: 0, root_wakes: 0, root_wakes_stale: 0, cur_epoch: 0, wake_panics: vec![], fired: std::collections::BTreeMap::new() }),
            cv_main: std::sync::Condvar::new(),
            cv_workers: std::sync::Condvar::new(),
            rdv: AtomicBool::new(false),
            about: std::sync::atomic::AtomicUsize::new(0),
            go: std::sync::atomic::AtomicUsize::new(0),
        }
    }
    pub fn push(&self, c: Cid, wk: Waker) {
        let mut t = self.t.lock().unwrap();
        t.wakers.push((c, wk));
        drop(t);
        self.cv_workers.notify_one();
    }
}

// ------------------------------------------------------------------------------------------------
// firing wakers

/// Invoke waker `widx` of child `c`. Must be called without a world borrow.
pub fn fire(c: Cid, widx: usize, by_value: bool, ctx: FireCtx) {
    let wk = w(|w| {
        let n = w.ch[c].wakers.len();
        let latest = widx + 1 == n;
        // C16 "same key" clause: a wake on a slot's waker counts for whoever lives in that slot now
        if let Some(slot) = w.ch[c].slot {
            if let Some(cur) = w.live_slot.get(&slot).cloned() {
                if cur != c {
                    w.ch[cur].any_woken = true;
                }
            }
        }
        // ... and when the harness does not know the slot of a live group member (inserted through `extend`),
        // a wake on a dead member's waker is counted, conservatively, for every such member
        if w.ch[c].dropped > 0 {
            mark_unknown_slots(w, w.ch[c].slot.is_none());
        }
        let done = w.ch[c].last == Last::Done;
        let ch = &mut w.ch[c];
        ch.any_woken = true;
        if latest {
            ch.latest_woken = true;
            ch.later_outstanding = false;
        } else {
            w.st.fires_stale += 1;
        }
        if done {
            w.st.fires_after_done += 1;
        }
        if by_value {
            w.st.fires_by_value += 1;
        }
        match ctx {
            FireCtx::Between => w.st.fires_between += 1,
            FireCtx::MidPoll(_) => w.st.fires_midpoll += 1,
            FireCtx::AfterDrop => w.st.fires_after_drop += 1,
            FireCtx::SelfNow => w.st.fires_selfnow += 1,
            FireCtx::InDrop(_) => w.st.fires_in_drop += 1,
        }
        w.ev(Ev::Fire { c, widx, latest, by_value, ctx });
        w.ch[c].wakers[widx].clone()
    });
    IN_WAKE.store(true, Ordering::Relaxed);
    let r = std::panic::catch_unwind(std::panic::AssertUnwindSafe(|| {
        if by_value {
            wk.wake();
        } else {
            wk.wake_by_ref();
        }
    }));
    IN_WAKE.store(false, Ordering::Relaxed);
    PROGRESS.fetch_add(1, Ordering::Relaxed);
    if let Err(p) = r {
        let m = panic_msg(&p);
        w(|w| w.violate(&["C01"], format!("invoking waker #{widx} of child {c} panicked: {m}")));
    }
}

/// `all`: the dead member's own slot is unknown too, so the wake may belong to any live member
fn mark_unknown_slots(w: &mut World, all: bool) {
    for u in 0..w.ch.len() {
        if (all || w.ch[u].slot.is_none()) && w.ch[u].dropped == 0 {
            if let Some((p, _)) = w.ch[u].parent {
                if matches!(w.ch[p].fam, Fam::FGroup | Fam::SGroup) && w.ch[p].cont == Cont::Group {
                    w.ch[u].any_woken = true;
                }
            }
        }
    }
}

pub fn panic_msg(p: &Box<dyn std::any::Any + Send>) -> String {
    if p.is::<Injected>() {
        return "<injected>".into();
    }
    p.downcast_ref::<String>().cloned().or_else(|| p.downcast_ref::<&str>().map(|s| s.to_string())).unwrap_or_else(|| "<non-string panic payload>".into())
}

// ------------------------------------------------------------------------------------------------
// the executor's parent waker

pub struct ParentWaker(pub usize);
impl Wake for ParentWaker {
    fn wake(self: Arc<Self>) {
        self.wake_by_ref()
    }
    fn wake_by_ref(self: &Arc<Self>) {
        // only sets a flag and logs: the library calls this while holding its readiness mutex
        w(|w| {
            let cur = self.0 == w.parent_cur;
            if cur {
                w.parent_woken = true;
                w.st.parent_wakes_current += 1;
            } else {
                w.st.parent_wakes_stale += 1;
            }
            w.ev(Ev::ParentWake { waker: self.0, current: cur });
        })
    }
}

/// waker handed to an inner combinator node, so that I4 can be checked for nodes too
pub struct LogWaker {
    cid: Cid,
    inner: Waker,
}
impl Wake for LogWaker {
    fn wake(self: Arc<Self>) {
        self.wake_by_ref()
    }
    fn wake_by_ref(self: &Arc<Self>) {
        w(|w| {
            if let Some(slot) = w.ch[self.cid].slot {
                if let Some(cur) = w.live_slot.get(&slot).cloned() {
                    w.ch[cur].any_woken = true;
                }
            }
            if w.ch[self.cid].dropped > 0 {
                mark_unknown_slots(w, w.ch[self.cid].slot.is_none());
            }
            w.ch[self.cid].any_woken = true;
            w.st.node_wakes += 1;
            w.ev(Ev::NodeWake(self.cid));
        });
        self.inner.wake_by_ref();
    }
}

// ------------------------------------------------------------------------------------------------
// the scripted poll shared by leaf futures and streams

fn parent_selective(w: &World, id: Cid) -> bool {
    match w.ch[id].parent {
        Some((p, _)) => w.ch[p].fam.selective(),
        None => false,
    }
}

/// checks done at the start of every child (leaf or node) poll; returns false if the child must not run
fn poll_prologue(w: &mut World, id: Cid) -> bool {
    w.ev(Ev::Poll(id));
    w.st.child_polls += 1;
    if w.phase != Phase::Polling {
        let ph = w.phase;
        w.violate(&["C03"], format!("child {id} polled outside a poll of its owner (phase {ph:?})"));
    }
    if w.ch[id].last == Last::Done {
        w.violate(&["C03"], format!("child {id} polled again after it completed"));
        return false;
    }
    if w.ch[id].dropped > 0 {
        w.violate(&["C03", "C02"], format!("child {id} polled after it was dropped"));
        return false;
    }
    if let Some((p, i)) = w.ch[id].parent {
        // sequential / hold-back rules that belong to the family models
        let (fam, cursor, filled, ddone) = {
            let pn = &w.ch[p];
            (pn.fam, pn.model.on_cursor, pn.model.on_row.get(i).cloned().unwrap_or(false), pn.model.on_deadline)
        };
        match fam {
            Fam::Chain if cursor != i => w.violate(&["C10"], format!("chain input {i} (child {id}) polled while input {cursor} is current")),
            Fam::Zip if filled => w.violate(&["C09"], format!("zip input {i} (child {id}) polled although its item for the current row is buffered")),
            Fam::WaitF | Fam::WaitS if i == 0 && !ddone => w.violate(&["C19"], format!("wait_until polled the inner (child {id}) before the deadline resolved")),
            _ => {}
        }
    }
    // (in engine T the firing threads leave a mark in the shared table before they invoke a waker of this child)
    // a re-poll is justified if a call was announced since the previous poll of this child started, or was still
    // in flight at that moment (it may have set the bit afterwards)
    let fired_elsewhere = match &w.threaded {
        Some(sh) => {
            // The observation point (this prologue) lies a little after the library cleared the child's bit, so a
            // call that landed in between is only seen as "announced before the previous prologue": two prologues
            // of history make the rule sound (never an alarm where a wake call could account for the poll).
            let (count, inflight) = sh.t.lock().unwrap().fired.get(&id).cloned().unwrap_or((0, 0));
            let c = &mut w.ch[id];
            let ok = count > c.t_count_before_prev || c.t_inflight_at_poll > 0 || c.t_inflight_before_prev > 0;
            c.t_count_before_prev = c.t_count_at_poll;
            c.t_inflight_before_prev = c.t_inflight_at_poll;
            c.t_count_at_poll = count;
            c.t_inflight_at_poll = inflight;
            ok
        }
        None => false,
    };
    // (inner combinator nodes are not judged in engine T: their wakers are not wrapped there)
    let judged = w.threaded.is_none() || w.ch[id].kind != Kind::Node;
    if judged && w.std_cfg && w.ch[id].last == Last::Pending && parent_selective(w, id) {
        w.st.i4_obligations += 1;
        if !w.ch[id].any_woken && !fired_elsewhere {
            let np = w.ch[id].polls + 1;
            let dbg = match &w.threaded {
                Some(_) => format!(" (poll #{np} of this child; wake() calls announced by other threads so far: {}, in flight at its previous poll: {})", w.ch[id].t_count_at_poll, w.ch[id].t_inflight_at_poll),
                None => format!(" (poll #{np} of this child)"),
            };
            w.violate(&["C16"], format!("child {id} last returned Pending and was polled again although none of its wakers was invoked{dbg}"));
        }
    }
    let ch = &mut w.ch[id];
    ch.polls += 1;
    ch.any_woken = false;
    ch.latest_woken = false;
    ch.later_outstanding = false;
    true
}

fn ret_epilogue(w: &mut World, id: Cid, r: Res) {
    let last = match r {
        Res::Pend => Last::Pending,
        Res::Item(_) => Last::Item,
        Res::Panicked => Last::Pending,
        // a non-fused stream that is polled again after `None` carries on with its script
        Res::End if w.resumes(id) => Last::Item,
        _ => Last::Done,
    };
    w.ch[id].last = last;
    if r == Res::Pend {
        w.st.child_pending += 1;
    }
    if let Res::Ok(v) | Res::Err(v) | Res::Item(v) = r {
        w.ch[id].produced.push(v);
    }
    w.ev(Ev::Ret(id, r.clone()));
    if let Some((p, i)) = w.ch[id].parent {
        // online hold-back state of the parent
        let pfam = w.ch[p].fam;
        let m = &mut w.ch[p].model;
        match (pfam, &r) {
            (Fam::Chain, Res::End) => m.on_cursor += 1,
            (Fam::Zip, Res::Item(_)) => {
                m.on_row[i] = true;
                if m.on_row.iter().all(|f| *f) {
                    for f in m.on_row.iter_mut() {
                        *f = false;
                    }
                }
            }
            (Fam::WaitF | Fam::WaitS, Res::Ok(_) | Res::Err(_)) if i == 1 => m.on_deadline = true,
            _ => {}
        }
        m.cur.push((i, r));
    }
}

pub fn leaf_poll(id: Cid, cx: &mut Context<'_>) -> Option<Res> {
    PROGRESS.fetch_add(1, Ordering::Relaxed);
    let (run, nfire, step) = w(|w| {
        if !poll_prologue(w, id) {
            return (false, 0, Step::PendNever);
        }
        w.ch[id].wakers.push(cx.waker().clone());
        w.poll_stack.push(id);
        let ch = &mut w.ch[id];
        let step = if ch.always_ready {
            Step::Item
        } else {
            let s = ch.script.get(ch.pc).cloned().unwrap_or(Step::PendNever);
            ch.pc += 1;
            s
        };
        let pct = w.midfire_pct;
        let nfire = if w.small_mode {
            0
        } else if pct > 0 && w.midfire_left > 0 && w.chance(pct) {
            let k = 1 + w.below(2);
            w.midfire_left = w.midfire_left.saturating_sub(k as u32);
            k
        } else {
            0
        };
        (true, nfire, step)
    });
    if !run {
        return None;
    }
    // systematic sweep: one decision per leaf poll — nothing, or the latest waker of any one child (own or sibling)
    let small_pick = w(|w| {
        if !(w.small_mode && w.midfire_pct > 0) {
            return None;
        }
        let cands: Vec<Cid> = w.ch.iter().enumerate().filter(|(_, c)| !c.wakers.is_empty() && matches!(c.kind, Kind::LeafFut | Kind::LeafStr)).map(|(i, _)| i).collect();
        let k = w.below(1 + cands.len());
        if k == 0 {
            None
        } else {
            let c = cands[k - 1];
            Some((c, w.ch[c].wakers.len() - 1))
        }
    });
    if let Some((c, i)) = small_pick {
        fire(c, i, false, FireCtx::MidPoll(id));
    }
    // mid-poll cross fires of arbitrary handed-out wakers (own / sibling, latest / stale)
    for _ in 0..nfire {
        let pick = w(|w| {
            let n = w.ch.len();
            let c = w.below(n);
            let k = w.ch[c].wakers.len();
            if k == 0 {
                None
            } else {
                let i = if w.below(2) == 0 { k - 1 } else { w.below(k) };
                let by_value = w.below(4) == 0;
                Some((c, i, by_value))
            }
        });
        if let Some((c, i, bv)) = pick {
            fire(c, i, bv, FireCtx::MidPoll(id));
        }
    }
    let res = match step {
        Step::PendSelf => {
            let i = w(|w| {
                w.ch[id].last = Last::Pending;
                w.ch[id].wakers.len() - 1
            });
            fire(id, i, false, FireCtx::SelfNow);
            Res::Pend
        }
        Step::PendLater => {
            let sh = w(|w| {
                w.ch[id].later_outstanding = true;
                w.threaded.clone()
            });
            if let Some(sh) = sh {
                // engine T: another thread will invoke this waker
                sh.push(id, cx.waker().clone());
            }
            Res::Pend
        }
        Step::PendNever => Res::Pend,
        Step::Panic => {
            w(|w| {
                w.st.panics_injected += 1;
                w.injected_seen = true;
                w.ch[id].last = Last::Pending;
                w.ev(Ev::Ret(id, Res::Panicked));
                w.poll_stack.pop();
            });
            std::panic::panic_any(Injected);
        }
        Step::Ok => Res::Ok(0),
        Step::Err => Res::Err(0),
        Step::Item => Res::Item(0),
        Step::End => Res::End,
    };
    Some(res)
}

pub fn leaf_finish(id: Cid, r: Res) {
    w(|w| {
        w.poll_stack.pop();
        ret_epilogue(w, id, r);
    })
}

fn mark_dropped(id: Cid) {
    let target = w(|w| {
        w.ch[id].dropped += 1;
        if w.ch[id].dropped > 1 {
            w.violate(&["C02"], format!("child {id} dropped twice"));
        }
        w.ev(Ev::DropChild(id));
        // a destructor that wakes somebody (its own stale waker or a sibling's latest one)
        if w.ch[id].wake_on_drop && w.ch[id].dropped == 1 {
            let with: Vec<Cid> = w.ch.iter().enumerate().filter(|(_, c)| !c.wakers.is_empty() && matches!(c.kind, Kind::LeafFut | Kind::LeafStr)).map(|(i, _)| i).collect();
            if with.is_empty() {
                None
            } else {
                let c = with[w.below(with.len())];
                Some((c, w.ch[c].wakers.len() - 1))
            }
        } else {
            None
        }
    });
    if let Some((c, i)) = target {
        fire(c, i, false, FireCtx::InDrop(id));
    }
}

// ------------------------------------------------------------------------------------------------
// leaves

pub struct SFut {
    pub id: Cid,
    _pin: PhantomPinned,
}
impl SFut {
    pub fn new(id: Cid) -> SFut {
        w(|w| {
            w.ch[id].created = true;
            w.st.children_created += 1;
        });
        SFut { id, _pin: PhantomPinned }
    }
}
impl Future for SFut {
    type Output = R;
    fn poll(self: Pin<&mut Self>, cx: &mut Context<'_>) -> Poll<R> {
        let id = self.id;
        match leaf_poll(id, cx) {
            None => Poll::Pending,
            Some(Res::Ok(_)) => {
                let v = Val::new(id);
                leaf_finish(id, Res::Ok(v.id));
                Poll::Ready(Ok(v))
            }
            Some(Res::Err(_)) => {
                let v = Val::new(id);
                leaf_finish(id, Res::Err(v.id));
                Poll::Ready(Err(v))
            }
            _ => {
                leaf_finish(id, Res::Pend);
                Poll::Pending
            }
        }
    }
}
impl Drop for SFut {
    fn drop(&mut self) {
        mark_dropped(self.id)
    }
}

/// Scripted leaves whose type has NO drop glue (`mem::needs_drop::<PFut>() == false`) while their outputs do:
/// bookkeeping that keys "is there anything to drop" on the child type instead of the output type leaks here.
pub struct PFut {
    pub id: Cid,
    _pin: PhantomPinned,
}
impl PFut {
    pub fn new(id: Cid) -> PFut {
        w(|w| {
            w.ch[id].created = true;
            w.ch[id].plain = true;
            w.st.children_created += 1;
        });
        PFut { id, _pin: PhantomPinned }
    }
}
impl Future for PFut {
    type Output = R;
    fn poll(self: Pin<&mut Self>, cx: &mut Context<'_>) -> Poll<R> {
        let id = self.id;
        match leaf_poll(id, cx) {
            None => Poll::Pending,
            Some(Res::Ok(_)) => {
                let v = Val::new(id);
                leaf_finish(id, Res::Ok(v.id));
                Poll::Ready(Ok(v))
            }
            Some(Res::Err(_)) => {
                let v = Val::new(id);
                leaf_finish(id, Res::Err(v.id));
                Poll::Ready(Err(v))
            }
            _ => {
                leaf_finish(id, Res::Pend);
                Poll::Pending
            }
        }
    }
}
pub struct PStr {
    pub id: Cid,
    _pin: PhantomPinned,
}
impl PStr {
    pub fn new(id: Cid) -> PStr {
        w(|w| {
            w.ch[id].created = true;
            w.ch[id].plain = true;
            w.st.children_created += 1;
        });
        PStr { id, _pin: PhantomPinned }
    }
}
impl Stream for PStr {
    type Item = Val;
    fn poll_next(self: Pin<&mut Self>, cx: &mut Context<'_>) -> Poll<Option<Val>> {
        let id = self.id;
        match leaf_poll(id, cx) {
            None => Poll::Pending,
            Some(Res::Item(_)) => {
                let v = Val::new(id);
                leaf_finish(id, Res::Item(v.id));
                Poll::Ready(Some(v))
            }
            Some(Res::End) => {
                leaf_finish(id, Res::End);
                Poll::Ready(None)
            }
            _ => {
                leaf_finish(id, Res::Pend);
                Poll::Pending
            }
        }
    }
    fn size_hint(&self) -> (usize, Option<usize>) {
        leaf_size_hint(self.id)
    }
}
const _: () = assert!(!std::mem::needs_drop::<PFut>() && !std::mem::needs_drop::<PStr>());

pub struct SStr {
    pub id: Cid,
    _pin: PhantomPinned,
}
impl SStr {
    pub fn new(id: Cid) -> SStr {
        w(|w| {
            w.ch[id].created = true;
            w.st.children_created += 1;
        });
        SStr { id, _pin: PhantomPinned }
    }
}
impl Stream for SStr {
    type Item = Val;
    fn poll_next(self: Pin<&mut Self>, cx: &mut Context<'_>) -> Poll<Option<Val>> {
        let id = self.id;
        match leaf_poll(id, cx) {
            None => Poll::Pending,
            Some(Res::Item(_)) => {
                let v = Val::new(id);
                leaf_finish(id, Res::Item(v.id));
                Poll::Ready(Some(v))
            }
            Some(Res::End) => {
                leaf_finish(id, Res::End);
                Poll::Ready(None)
            }
            _ => {
                leaf_finish(id, Res::Pend);
                Poll::Pending
            }
        }
    }
    fn size_hint(&self) -> (usize, Option<usize>) {
        leaf_size_hint(self.id)
    }
}
/// size_hint of a scripted stream: the number of `Item` steps left before the next `End` is known exactly
pub fn leaf_size_hint(id: Cid) -> (usize, Option<usize>) {
    w(|w| {
        let c = &w.ch[id];
        if c.always_ready {
            return if c.hint_mode == 0 { (0, None) } else { (usize::MAX, None) };
        }
        let rest = || c.script.iter().skip(c.pc).take_while(|s| **s != Step::End);
        let rem = rest().filter(|s| **s == Step::Item).count();
        let never = rest().any(|s| *s == Step::PendNever) || !c.script.iter().skip(c.pc).any(|s| *s == Step::End);
        match c.hint_mode {
            1 if !never => (rem, Some(rem)),
            1 => (rem, None),
            2 => (rem / 2, Some(rem + 3)),
            _ => (0, None),
        }
    })
}

impl Drop for SStr {
    fn drop(&mut self) {
        mark_dropped(self.id)
    }
}

// ------------------------------------------------------------------------------------------------
// a child position of a combinator: a scripted leaf or a boxed inner combinator

pub enum KFut {
    Leaf(SFut),
    Node(Pin<Box<dyn Future<Output = R>>>),
}
impl Future for KFut {
    type Output = R;
    fn poll(self: Pin<&mut Self>, cx: &mut Context<'_>) -> Poll<R> {
        // SAFETY: structural projection; the leaf is never moved out of the pinned enum
        unsafe {
            match self.get_unchecked_mut() {
                KFut::Leaf(l) => Pin::new_unchecked(l).poll(cx),
                KFut::Node(n) => n.as_mut().poll(cx),
            }
        }
    }
}
pub enum KStr {
    Leaf(SStr),
    Node(Pin<Box<dyn Stream<Item = Val>>>),
}
impl Stream for KStr {
    type Item = Val;
    fn poll_next(self: Pin<&mut Self>, cx: &mut Context<'_>) -> Poll<Option<Val>> {
        unsafe {
            match self.get_unchecked_mut() {
                KStr::Leaf(l) => Pin::new_unchecked(l).poll_next(cx),
                KStr::Node(n) => n.as_mut().poll_next(cx),
            }
        }
    }    fn size_hint(&self) -> (usize, Option<usize>) {
        match self {
            KStr::Leaf(l) => l.size_hint(),
            KStr::Node(n) => n.size_hint(),
        }
    }
}

// ------------------------------------------------------------------------------------------------
// Tap: observed combinator node

/// start of a node poll: prologue checks, optional waker wrapping
pub fn node_enter(cid: Cid, cx: &Context<'_>) -> Option<Waker> {
    PROGRESS.fetch_add(1, Ordering::Relaxed);
    w(|w| {
        let is_root = w.ch[cid].parent.is_none();
        if !is_root {
            poll_prologue(w, cid);
            w.st.node_polls += 1;
        }
        w.ch[cid].model.cur.clear();
        w.poll_stack.push(cid);
        // wrap the waker only where I4 is checked for this node (std build, selective parent)
        if !is_root && w.std_cfg && w.threaded.is_none() && parent_selective(w, cid) {
            Some(Waker::from(Arc::new(LogWaker { cid, inner: cx.waker().clone() })))
        } else {
            None
        }
    })
}

/// end of a node poll: run the family's reference model on what the direct children returned
pub fn node_exit(cid: Cid, flag: u8, parts: Vec<u64>) -> Res {
    // flag: 0 pending, 1 ok, 2 err, 3 item, 4 end
    let packed = match flag {
        1 | 2 | 3 => Some(Val::packed(cid, Some(parts.clone().into_boxed_slice()))),
        _ => None,
    };
    let pid = packed.as_ref().map(|v| v.id).unwrap_or(0);
    let res = match flag {
        0 => Res::Pend,
        1 => Res::Ok(pid),
        2 => Res::Err(pid),
        3 => Res::Item(pid),
        _ => Res::End,
    };
    w(|w| {
        w.poll_stack.pop();
        model::check_node_poll(w, cid, flag, &parts);
        let is_root = w.ch[cid].parent.is_none();
        if !is_root {
            ret_epilogue(w, cid, res.clone());
        } else {
            let resumes = res == Res::End && w.ch[cid].fam == Fam::WaitS && w.ch[cid].kids.first().map(|k| w.resumes(*k)).unwrap_or(false);
            w.ch[cid].last = match res {
                Res::Pend => Last::Pending,
                Res::Item(_) => Last::Item,
                _ if resumes => Last::Item,
                _ => Last::Done,
            };
        }
    });
    // the packed value travels on to the node's consumer
    PACK.with(|p| *p.borrow_mut() = packed);
    res
}

thread_local! { static PACK: std::cell::RefCell<Option<Val>> = std::cell::RefCell::new(None); }
fn take_pack() -> Val {
    PACK.with(|p| p.borrow_mut().take()).expect("packed value")
}

pub fn take_v(v: Val) -> u64 {
    let id = v.check_live("combinator output");
    drop(v);
    id
}
pub fn take_r(r: R) -> (bool, u64) {
    match r {
        Ok(v) => (true, take_v(v)),
        Err(v) => (false, take_v(v)),
    }
}

pub struct TapF<F: Future> {
    cid: Cid,
    inner: F,
    norm: fn(F::Output) -> (bool, Vec<u64>),
}
impl<F: Future> TapF<F> {
    pub fn new(cid: Cid, inner: F, norm: fn(F::Output) -> (bool, Vec<u64>)) -> Self {
        w(|w| w.ch[cid].created = true);
        TapF { cid, inner, norm }
    }
}
impl<F: Future> Future for TapF<F> {
    type Output = R;
    fn poll(self: Pin<&mut Self>, cx: &mut Context<'_>) -> Poll<R> {
        // SAFETY: `inner` is structurally pinned, the other fields are never moved out
        let this = unsafe { self.get_unchecked_mut() };
        let cid = this.cid;
        let wrapped = node_enter(cid, cx);
        let inner = unsafe { Pin::new_unchecked(&mut this.inner) };
        let r = match &wrapped {
            Some(wk) => {
                let mut cx2 = Context::from_waker(wk);
                inner.poll(&mut cx2)
            }
            None => inner.poll(cx),
        };
        match r {
            Poll::Pending => {
                node_exit(cid, 0, vec![]);
                Poll::Pending
            }
            Poll::Ready(o) => {
                let (ok, parts) = (this.norm)(o);
                node_exit(cid, if ok { 1 } else { 2 }, parts);
                let v = take_pack();
                Poll::Ready(if ok { Ok(v) } else { Err(v) })
            }
        }
    }
}
impl<F: Future> Drop for TapF<F> {
    fn drop(&mut self) {
        mark_dropped(self.cid)
    }
}

pub struct TapS<S: Stream> {
    cid: Cid,
    inner: S,
    norm: fn(S::Item) -> Vec<u64>,
}
impl<S: Stream> TapS<S> {
    pub fn new(cid: Cid, inner: S, norm: fn(S::Item) -> Vec<u64>) -> Self {
        w(|w| w.ch[cid].created = true);
        TapS { cid, inner, norm }
    }
}
impl<S: Stream> Stream for TapS<S> {
    type Item = Val;
    fn poll_next(self: Pin<&mut Self>, cx: &mut Context<'_>) -> Poll<Option<Val>> {
        let this = unsafe { self.get_unchecked_mut() };
        let cid = this.cid;
        let wrapped = node_enter(cid, cx);
        let inner = unsafe { Pin::new_unchecked(&mut this.inner) };
        let r = match &wrapped {
            Some(wk) => {
                let mut cx2 = Context::from_waker(wk);
                inner.poll_next(&mut cx2)
            }
            None => inner.poll_next(cx),
        };
        match r {
            Poll::Pending => {
                node_exit(cid, 0, vec![]);
                Poll::Pending
            }
            Poll::Ready(None) => {
                node_exit(cid, 4, vec![]);
                Poll::Ready(None)
            }
            Poll::Ready(Some(o)) => {
                let parts = (this.norm)(o);
                node_exit(cid, 3, parts);
                Poll::Ready(Some(take_pack()))
            }
        }
    }    fn size_hint(&self) -> (usize, Option<usize>) {
        self.inner.size_hint()
    }
}
impl<S: Stream> Drop for TapS<S> {
    fn drop(&mut self) {
        mark_dropped(self.cid)
    }
}
