//! Adapters: build the real combinators (family x container x arity) over scripted children, each
//! wrapped in a `Tap` node so that its polls, results and drops are observed.

use crate::child::*;
use crate::world::*;
use futures_concurrency::prelude::*;
use futures_core::Stream;
use std::convert::Infallible;
use std::future::Future;
use std::ops::Deref;
use std::pin::Pin;

pub type BF = Pin<Box<dyn Future<Output = R>>>;
pub type BS = Pin<Box<dyn Stream<Item = Val>>>;

#[derive(Clone, Debug)]
pub enum ShapeKid {
    Leaf,
    Node(Shape),
}
#[derive(Clone, Debug)]
pub struct Shape {
    pub fam: Fam,
    pub cont: Cont,
    pub kids: Vec<ShapeKid>,
}
impl Shape {
    pub fn flat(fam: Fam, cont: Cont, n: usize) -> Shape {
        Shape { fam, cont, kids: (0..n).map(|_| ShapeKid::Leaf).collect() }
    }
    pub fn leaves(&self) -> usize {
        self.kids.iter().map(|k| match k { ShapeKid::Leaf => 1, ShapeKid::Node(s) => s.leaves() }).sum()
    }
    pub fn nested(&self) -> bool {
        self.kids.iter().any(|k| matches!(k, ShapeKid::Node(_)))
    }
    pub fn describe(&self) -> String {
        let kids: Vec<String> = self.kids.iter().map(|k| match k { ShapeKid::Leaf => "L".to_string(), ShapeKid::Node(s) => s.describe() }).collect();
        format!("{}:{}[{}]", self.fam.name(), self.cont.name(), kids.join(","))
    }
    /// (stream leaf?, fallible context?) for every leaf in construction order
    pub fn leaf_kinds(&self, out: &mut Vec<(bool, Fam, usize)>) {
        for (i, k) in self.kids.iter().enumerate() {
            match k {
                ShapeKid::Leaf => out.push((kid_is_stream(self.fam, i), self.fam, i)),
                ShapeKid::Node(s) => s.leaf_kinds(out),
            }
        }
    }
}

/// is child position `i` of family `fam` a stream?
pub fn kid_is_stream(fam: Fam, i: usize) -> bool {
    match fam {
        Fam::WaitS => i == 0,
        f => f.stream_kids(),
    }
}

pub const ARRAY_LENS: [usize; 12] = [0, 1, 2, 3, 4, 5, 8, 13, 23, 64, 65, 257];
/// array lengths at internal boundaries (inline state buffer 22/23, bit-block 64/65), drawn with a small probability
pub const ARRAY_MID_LENS: [usize; 3] = [23, 64, 65];

/// can this (family, container, n) be built in the current feature configuration?
pub fn supported(fam: Fam, cont: Cont, n: usize) -> bool {
    let alloc = cfg!(feature = "fc-alloc");
    let min = match (fam, cont) {
        (Fam::Race, Cont::Tuple) | (Fam::RaceOk, Cont::Tuple) | (Fam::Zip, Cont::Tuple) | (Fam::Chain, Cont::Tuple) => 1,
        // racing zero futures is outside every property (and pends forever / panics by construction)
        (Fam::Race, _) => 1,
        (Fam::Zip, _) => 1,
        _ => 0,
    };
    if n < min {
        return false;
    }
    match (fam, cont) {
        (Fam::FGroup, Cont::Group) | (Fam::SGroup, Cont::Group) => alloc,
        (Fam::FGroup, _) | (Fam::SGroup, _) => false,
        (Fam::WaitF, Cont::Ext) | (Fam::WaitS, Cont::Ext) => n == 2,
        (Fam::WaitF, _) | (Fam::WaitS, _) => false,
        (Fam::Co, _) => false,
        (_, Cont::Group) => false,
        (_, Cont::Vec) => alloc,
        (_, Cont::Array) => ARRAY_LENS.contains(&n),
        (_, Cont::Tuple) => n <= 12,
        (Fam::Join, Cont::Ext) | (Fam::Race, Cont::Ext) | (Fam::Merge, Cont::Ext) | (Fam::Zip, Cont::Ext) | (Fam::Chain, Cont::Ext) => n == 2,
        (_, Cont::Ext) => false,
    }
}

// ------------------------------------------------------------------------------------------------
// normalisers: consume a combinator output, validate every value, return (ok?, ids by position)

fn n_join_iter<I: IntoIterator<Item = R>>(o: I) -> (bool, Vec<u64>) {
    (true, o.into_iter().map(|r| take_r(r).1).collect())
}
fn n_tryjoin_iter<I: IntoIterator<Item = Val>>(o: Result<I, Val>) -> (bool, Vec<u64>) {
    match o {
        Ok(vs) => (true, vs.into_iter().map(take_v).collect()),
        Err(e) => (false, vec![take_v(e)]),
    }
}
fn n_race(o: R) -> (bool, Vec<u64>) {
    let (ok, id) = take_r(o);
    (ok, vec![id])
}
fn n_raceok<E, T>(o: Result<Val, E>) -> (bool, Vec<u64>)
where
    E: Deref<Target = T>,
    T: AsRef<[Val]>,
{
    match o {
        Ok(v) => (true, vec![take_v(v)]),
        Err(agg) => {
            let ids: Vec<u64> = (*agg).as_ref().iter().map(|e| e.check_live("race_ok aggregate error")).collect();
            drop(agg);
            (false, ids)
        }
    }
}
fn n_item(v: Val) -> Vec<u64> {
    vec![take_v(v)]
}
fn n_row<I: IntoIterator<Item = Val>>(row: I) -> Vec<u64> {
    row.into_iter().map(take_v).collect()
}

macro_rules! ty {
    ($x:ident, $t:ty) => {
        $t
    };
}

// tuple constructors + normalisers, one match arm per arity
macro_rules! tuple_arms {
    (join, $cid:ident, $v:ident, $( $n:literal [$($x:ident)*] )*) => {
        match $v.len() {
            $( $n => { let mut _it = $v.into_iter(); $( let $x = _it.next().unwrap(); )*
                Box::pin(TapF::new($cid, ($($x,)*).join(), |($($x,)*): ($(ty!($x, R),)*)| { let ids: Vec<u64> = vec![$(take_r($x).1),*]; (true, ids) })) as BF } )*
            _ => unreachable!("tuple arity"),
        }
    };
    (try_join, $cid:ident, $v:ident, $( $n:literal [$($x:ident)*] )*) => {
        match $v.len() {
            0 => Box::pin(TapF::new($cid, ().try_join(), |r: Result<(), Infallible>| (r.is_ok(), vec![]))) as BF,
            $( $n => { let mut _it = $v.into_iter(); $( let $x = _it.next().unwrap(); )*
                Box::pin(TapF::new($cid, ($($x,)*).try_join(), |r: Result<($(ty!($x, Val),)*), Val>| match r {
                    Ok(($($x,)*)) => (true, vec![$(take_v($x)),*]),
                    Err(e) => (false, vec![take_v(e)]),
                })) as BF } )*
            _ => unreachable!("tuple arity"),
        }
    };
    (race, $cid:ident, $v:ident, $( $n:literal [$($x:ident)*] )*) => {
        match $v.len() {
            $( $n => { let mut _it = $v.into_iter(); $( let $x = _it.next().unwrap(); )*
                Box::pin(TapF::new($cid, ($($x,)*).race(), n_race)) as BF } )*
            _ => unreachable!("tuple arity"),
        }
    };
    (race_ok, $cid:ident, $v:ident, $( $n:literal [$($x:ident)*] )*) => {
        match $v.len() {
            $( $n => { let mut _it = $v.into_iter(); $( let $x = _it.next().unwrap(); )*
                Box::pin(TapF::new($cid, ($($x,)*).race_ok(), n_raceok::<_, [Val; $n]>)) as BF } )*
            _ => unreachable!("tuple arity"),
        }
    };
    (merge, $cid:ident, $v:ident, $( $n:literal [$($x:ident)*] )*) => {
        match $v.len() {
            0 => Box::pin(TapS::new($cid, ().merge(), |i: Infallible| match i {})) as BS,
            $( $n => { let mut _it = $v.into_iter(); $( let $x = _it.next().unwrap(); )*
                Box::pin(TapS::new($cid, ($($x,)*).merge(), n_item)) as BS } )*
            _ => unreachable!("tuple arity"),
        }
    };
    (zip, $cid:ident, $v:ident, $( $n:literal [$($x:ident)*] )*) => {
        match $v.len() {
            $( $n => { let mut _it = $v.into_iter(); $( let $x = _it.next().unwrap(); )*
                Box::pin(TapS::new($cid, ($($x,)*).zip(), |($($x,)*): ($(ty!($x, Val),)*)| { let ids: Vec<u64> = vec![$(take_v($x)),*]; ids })) as BS } )*
            _ => unreachable!("tuple arity"),
        }
    };
    (chain, $cid:ident, $v:ident, $( $n:literal [$($x:ident)*] )*) => {
        match $v.len() {
            $( $n => { let mut _it = $v.into_iter(); $( let $x = _it.next().unwrap(); )*
                Box::pin(TapS::new($cid, ($($x,)*).chain(), n_item)) as BS } )*
            _ => unreachable!("tuple arity"),
        }
    };
}
macro_rules! tuples_from {
    (0, $fam:ident, $cid:ident, $v:ident) => {
        tuple_arms!($fam, $cid, $v, 0 [] 1 [a] 2 [a b] 3 [a b c] 4 [a b c d] 5 [a b c d e] 6 [a b c d e f] 7 [a b c d e f g]
            8 [a b c d e f g h] 9 [a b c d e f g h i] 10 [a b c d e f g h i j] 11 [a b c d e f g h i j k] 12 [a b c d e f g h i j k l])
    };
    (1, $fam:ident, $cid:ident, $v:ident) => {
        tuple_arms!($fam, $cid, $v, 1 [a] 2 [a b] 3 [a b c] 4 [a b c d] 5 [a b c d e] 6 [a b c d e f] 7 [a b c d e f g]
            8 [a b c d e f g h] 9 [a b c d e f g h i] 10 [a b c d e f g h i j] 11 [a b c d e f g h i j k] 12 [a b c d e f g h i j k l])
    };
}

macro_rules! arr_dispatch {
    ($f:ident, $cid:ident, $v:ident) => {
        match $v.len() {
            0 => $f::<0>($cid, $v),
            1 => $f::<1>($cid, $v),
            2 => $f::<2>($cid, $v),
            3 => $f::<3>($cid, $v),
            4 => $f::<4>($cid, $v),
            5 => $f::<5>($cid, $v),
            8 => $f::<8>($cid, $v),
            13 => $f::<13>($cid, $v),
            23 => $f::<23>($cid, $v),
            64 => $f::<64>($cid, $v),
            65 => $f::<65>($cid, $v),
            257 => $f::<257>($cid, $v),
            n => unreachable!("array length {n} not instantiated"),
        }
    };
}
fn arr<T, const N: usize>(v: Vec<T>) -> [T; N] {
    match v.try_into() {
        Ok(a) => a,
        Err(_) => unreachable!("array length"),
    }
}
fn join_arr<const N: usize>(cid: Cid, v: Vec<KFut>) -> BF {
    Box::pin(TapF::new(cid, arr::<_, N>(v).join(), n_join_iter::<[R; N]>))
}
fn try_join_arr<const N: usize>(cid: Cid, v: Vec<KFut>) -> BF {
    Box::pin(TapF::new(cid, arr::<_, N>(v).try_join(), n_tryjoin_iter::<[Val; N]>))
}
fn race_arr<const N: usize>(cid: Cid, v: Vec<KFut>) -> BF {
    Box::pin(TapF::new(cid, arr::<_, N>(v).race(), n_race))
}
fn race_ok_arr<const N: usize>(cid: Cid, v: Vec<KFut>) -> BF {
    Box::pin(TapF::new(cid, arr::<_, N>(v).race_ok(), n_raceok::<_, [Val; N]>))
}
fn merge_arr<const N: usize>(cid: Cid, v: Vec<KStr>) -> BS {
    Box::pin(TapS::new(cid, arr::<_, N>(v).merge(), n_item))
}
fn zip_arr<const N: usize>(cid: Cid, v: Vec<KStr>) -> BS {
    Box::pin(TapS::new(cid, arr::<_, N>(v).zip(), n_row::<[Val; N]>))
}
fn chain_arr<const N: usize>(cid: Cid, v: Vec<KStr>) -> BS {
    Box::pin(TapS::new(cid, arr::<_, N>(v).chain(), n_item))
}

// ---- the same array / Vec combinators over leaf types without drop glue (flat shapes only) -----------------
pub const PLAIN_ARRAY_LENS: [usize; 5] = [1, 2, 3, 5, 8];
macro_rules! plain_arr_dispatch {
    ($f:ident, $cid:ident, $v:ident) => {
        match $v.len() {
            1 => $f::<1>($cid, $v),
            2 => $f::<2>($cid, $v),
            3 => $f::<3>($cid, $v),
            5 => $f::<5>($cid, $v),
            8 => $f::<8>($cid, $v),
            n => unreachable!("plain array length {n} not instantiated"),
        }
    };
}
fn p_join_arr<const N: usize>(cid: Cid, v: Vec<PFut>) -> BF {
    Box::pin(TapF::new(cid, arr::<_, N>(v).join(), n_join_iter::<[R; N]>))
}
fn p_try_join_arr<const N: usize>(cid: Cid, v: Vec<PFut>) -> BF {
    Box::pin(TapF::new(cid, arr::<_, N>(v).try_join(), n_tryjoin_iter::<[Val; N]>))
}
fn p_race_arr<const N: usize>(cid: Cid, v: Vec<PFut>) -> BF {
    Box::pin(TapF::new(cid, arr::<_, N>(v).race(), n_race))
}
fn p_race_ok_arr<const N: usize>(cid: Cid, v: Vec<PFut>) -> BF {
    Box::pin(TapF::new(cid, arr::<_, N>(v).race_ok(), n_raceok::<_, [Val; N]>))
}
fn p_merge_arr<const N: usize>(cid: Cid, v: Vec<PStr>) -> BS {
    Box::pin(TapS::new(cid, arr::<_, N>(v).merge(), n_item))
}
fn p_zip_arr<const N: usize>(cid: Cid, v: Vec<PStr>) -> BS {
    Box::pin(TapS::new(cid, arr::<_, N>(v).zip(), n_row::<[Val; N]>))
}
fn p_chain_arr<const N: usize>(cid: Cid, v: Vec<PStr>) -> BS {
    Box::pin(TapS::new(cid, arr::<_, N>(v).chain(), n_item))
}
/// can this flat shape be built over leaves without drop glue?
pub fn plain_supported(fam: Fam, cont: Cont, n: usize) -> bool {
    let fam_ok = matches!(fam, Fam::Join | Fam::TryJoin | Fam::Race | Fam::RaceOk | Fam::Merge | Fam::Zip | Fam::Chain);
    fam_ok && supported(fam, cont, n) && match cont {
        Cont::Array => PLAIN_ARRAY_LENS.contains(&n),
        Cont::Vec => n >= 1,
        Cont::Tuple => n >= 1,
        _ => false,
    }
}
fn make_fut_plain(fam: Fam, cont: Cont, cid: Cid, mut v: Vec<PFut>) -> BF {
    spare_capacity(cont, &mut v);
    match (fam, cont) {
        (Fam::Join, Cont::Tuple) => tuples_from!(1, join, cid, v),
        (Fam::TryJoin, Cont::Tuple) => tuples_from!(1, try_join, cid, v),
        (Fam::Race, Cont::Tuple) => tuples_from!(1, race, cid, v),
        (Fam::RaceOk, Cont::Tuple) => tuples_from!(1, race_ok, cid, v),
        (Fam::Join, Cont::Array) => plain_arr_dispatch!(p_join_arr, cid, v),
        (Fam::TryJoin, Cont::Array) => plain_arr_dispatch!(p_try_join_arr, cid, v),
        (Fam::Race, Cont::Array) => plain_arr_dispatch!(p_race_arr, cid, v),
        (Fam::RaceOk, Cont::Array) => plain_arr_dispatch!(p_race_ok_arr, cid, v),
        #[cfg(feature = "fc-alloc")]
        (Fam::Join, Cont::Vec) => Box::pin(TapF::new(cid, v.join(), n_join_iter::<Vec<R>>)),
        #[cfg(feature = "fc-alloc")]
        (Fam::TryJoin, Cont::Vec) => Box::pin(TapF::new(cid, v.try_join(), n_tryjoin_iter::<Vec<Val>>)),
        #[cfg(feature = "fc-alloc")]
        (Fam::Race, Cont::Vec) => Box::pin(TapF::new(cid, v.race(), n_race)),
        #[cfg(feature = "fc-alloc")]
        (Fam::RaceOk, Cont::Vec) => Box::pin(TapF::new(cid, v.race_ok(), n_raceok::<_, Vec<Val>>)),
        (f, c) => unreachable!("plain future shape {f:?}/{c:?}"),
    }
}
fn make_str_plain(fam: Fam, cont: Cont, cid: Cid, mut v: Vec<PStr>) -> BS {
    spare_capacity(cont, &mut v);
    match (fam, cont) {
        (Fam::Merge, Cont::Tuple) => tuples_from!(1, merge, cid, v),
        (Fam::Zip, Cont::Tuple) => tuples_from!(1, zip, cid, v),
        (Fam::Chain, Cont::Tuple) => tuples_from!(1, chain, cid, v),
        (Fam::Merge, Cont::Array) => plain_arr_dispatch!(p_merge_arr, cid, v),
        (Fam::Zip, Cont::Array) => plain_arr_dispatch!(p_zip_arr, cid, v),
        (Fam::Chain, Cont::Array) => plain_arr_dispatch!(p_chain_arr, cid, v),
        #[cfg(feature = "fc-alloc")]
        (Fam::Merge, Cont::Vec) => Box::pin(TapS::new(cid, v.merge(), n_item)),
        #[cfg(feature = "fc-alloc")]
        (Fam::Zip, Cont::Vec) => Box::pin(TapS::new(cid, v.zip(), n_row::<Vec<Val>>)),
        #[cfg(feature = "fc-alloc")]
        (Fam::Chain, Cont::Vec) => Box::pin(TapS::new(cid, v.chain(), n_item)),
        (f, c) => unreachable!("plain stream shape {f:?}/{c:?}"),
    }
}

fn two<T>(mut v: Vec<T>) -> (T, T) {
    let b = v.pop().unwrap();
    let a = v.pop().unwrap();
    (a, b)
}

fn make_fut(fam: Fam, cont: Cont, cid: Cid, v: Vec<KFut>) -> BF {
    match (fam, cont) {
        (Fam::Join, Cont::Tuple) => tuples_from!(0, join, cid, v),
        (Fam::Join, Cont::Array) => arr_dispatch!(join_arr, cid, v),
        #[cfg(feature = "fc-alloc")]
        (Fam::Join, Cont::Vec) => Box::pin(TapF::new(cid, v.join(), n_join_iter::<Vec<R>>)),
        (Fam::Join, Cont::Ext) => {
            let (a, b) = two(v);
            Box::pin(TapF::new(cid, FutureExt::join(a, b), |(x, y): (R, R)| (true, vec![take_r(x).1, take_r(y).1])))
        }
        (Fam::TryJoin, Cont::Tuple) => tuples_from!(1, try_join, cid, v),
        (Fam::TryJoin, Cont::Array) => arr_dispatch!(try_join_arr, cid, v),
        #[cfg(feature = "fc-alloc")]
        (Fam::TryJoin, Cont::Vec) => Box::pin(TapF::new(cid, v.try_join(), n_tryjoin_iter::<Vec<Val>>)),
        (Fam::Race, Cont::Tuple) => tuples_from!(1, race, cid, v),
        (Fam::Race, Cont::Array) => arr_dispatch!(race_arr, cid, v),
        #[cfg(feature = "fc-alloc")]
        (Fam::Race, Cont::Vec) => Box::pin(TapF::new(cid, v.race(), n_race)),
        (Fam::Race, Cont::Ext) => {
            let (a, b) = two(v);
            Box::pin(TapF::new(cid, FutureExt::race(a, b), n_race))
        }
        (Fam::RaceOk, Cont::Tuple) => tuples_from!(1, race_ok, cid, v),
        (Fam::RaceOk, Cont::Array) => arr_dispatch!(race_ok_arr, cid, v),
        #[cfg(feature = "fc-alloc")]
        (Fam::RaceOk, Cont::Vec) => Box::pin(TapF::new(cid, v.race_ok(), n_raceok::<_, Vec<Val>>)),
        (Fam::WaitF, Cont::Ext) => {
            let (inner, deadline) = two(v);
            Box::pin(TapF::new(cid, FutureExt::wait_until(inner, deadline), n_race))
        }
        (f, c) => unreachable!("future shape {f:?}/{c:?} not supported in this configuration"),
    }
}

use futures_concurrency::future::FutureExt;
use futures_concurrency::stream::StreamExt;

fn make_str(fam: Fam, cont: Cont, cid: Cid, v: Vec<KStr>) -> BS {
    match (fam, cont) {
        (Fam::Merge, Cont::Tuple) => tuples_from!(1, merge, cid, v),
        (Fam::Merge, Cont::Array) => arr_dispatch!(merge_arr, cid, v),
        #[cfg(feature = "fc-alloc")]
        (Fam::Merge, Cont::Vec) => Box::pin(TapS::new(cid, v.merge(), n_item)),
        (Fam::Merge, Cont::Ext) => {
            let (a, b) = two(v);
            Box::pin(TapS::new(cid, StreamExt::merge(a, b), n_item))
        }
        (Fam::Zip, Cont::Tuple) => tuples_from!(1, zip, cid, v),
        (Fam::Zip, Cont::Array) => arr_dispatch!(zip_arr, cid, v),
        #[cfg(feature = "fc-alloc")]
        (Fam::Zip, Cont::Vec) => Box::pin(TapS::new(cid, v.zip(), n_row::<Vec<Val>>)),
        (Fam::Zip, Cont::Ext) => {
            let (a, b) = two(v);
            Box::pin(TapS::new(cid, StreamExt::zip(a, b), |(x, y): (Val, Val)| vec![take_v(x), take_v(y)]))
        }
        (Fam::Chain, Cont::Tuple) => tuples_from!(1, chain, cid, v),
        (Fam::Chain, Cont::Array) => arr_dispatch!(chain_arr, cid, v),
        #[cfg(feature = "fc-alloc")]
        (Fam::Chain, Cont::Vec) => Box::pin(TapS::new(cid, v.chain(), n_item)),
        (Fam::Chain, Cont::Ext) => {
            let (a, b) = two(v);
            Box::pin(TapS::new(cid, StreamExt::chain(a, b), n_item))
        }
        #[cfg(feature = "fc-alloc")]
        (Fam::SGroup, Cont::Group) => {
            let mut g = futures_concurrency::stream::StreamGroup::new();
            for (i, s) in v.into_iter().enumerate() {
                let k = g.insert(s);
                let _ = (i, k);
            }
            Box::pin(TapS::new(cid, g, n_item))
        }
        (f, c) => unreachable!("stream shape {f:?}/{c:?} not supported in this configuration"),
    }
}

// ------------------------------------------------------------------------------------------------
// recursive construction; leaves take their scripts from `scripts` in construction order

pub struct Builder {
    pub scripts: std::collections::VecDeque<LeafSpec>,
    /// build the (flat) root over leaves without drop glue
    pub plain: bool,
}
#[derive(Clone, Debug)]
pub struct LeafSpec {
    pub script: Vec<Step>,
    pub always_ready: bool,
    /// the stream's script goes on after its first `End` (a non-fused stream that is polled again after `None`)
    pub resumable: bool,
    pub wake_on_drop: bool,
    pub hint_mode: u8,
}

impl Builder {
    fn reg_node(&mut self, s: &Shape, parent: Option<(Cid, usize)>) -> Cid {
        w(|w| {
            let mut c = Child::node(s.fam, s.cont, s.kids.len());
            c.parent = parent;
            w.ch.push(c);
            let cid = w.ch.len() - 1;
            if let Some((p, _)) = parent {
                w.ch[p].kids.push(cid);
            }
            cid
        })
    }
    fn reg_leaf(&mut self, stream: bool, parent: (Cid, usize)) -> Cid {
        let spec = self.scripts.pop_front().expect("leaf script");
        w(|w| {
            let mut c = Child::leaf(if stream { Kind::LeafStr } else { Kind::LeafFut }, spec.script);
            c.always_ready = spec.always_ready;
            c.resumable = spec.resumable;
            c.wake_on_drop = spec.wake_on_drop;
            c.hint_mode = spec.hint_mode;
            c.parent = Some(parent);
            if c.never {
                w.st.never_children += 1;
            }
            w.ch.push(c);
            let cid = w.ch.len() - 1;
            w.ch[parent.0].kids.push(cid);
            cid
        })
    }
    fn kid_fut(&mut self, k: &ShapeKid, parent: (Cid, usize)) -> KFut {
        match k {
            ShapeKid::Leaf => KFut::Leaf(SFut::new(self.reg_leaf(false, parent))),
            ShapeKid::Node(s) => KFut::Node(self.build_fut(s, Some(parent))),
        }
    }
    fn kid_str(&mut self, k: &ShapeKid, parent: (Cid, usize)) -> KStr {
        match k {
            ShapeKid::Leaf => KStr::Leaf(SStr::new(self.reg_leaf(true, parent))),
            ShapeKid::Node(s) => KStr::Node(self.build_str(s, Some(parent))),
        }
    }
    pub fn build_fut(&mut self, s: &Shape, parent: Option<(Cid, usize)>) -> BF {
        assert!(!s.fam.is_stream(), "{:?} is not a future family", s.fam);
        let cid = self.reg_node(s, parent);
        if self.plain && parent.is_none() && !s.nested() && plain_supported(s.fam, s.cont, s.kids.len()) {
            let kids: Vec<PFut> = (0..s.kids.len()).map(|i| PFut::new(self.reg_leaf(false, (cid, i)))).collect();
            return make_fut_plain(s.fam, s.cont, cid, kids);
        }
        let mut kids: Vec<KFut> = s.kids.iter().enumerate().map(|(i, k)| self.kid_fut(k, (cid, i))).collect();
        spare_capacity(s.cont, &mut kids);
        make_fut(s.fam, s.cont, cid, kids)
    }
    pub fn build_str(&mut self, s: &Shape, parent: Option<(Cid, usize)>) -> BS {
        assert!(s.fam.is_stream(), "{:?} is not a stream family", s.fam);
        let cid = self.reg_node(s, parent);
        if self.plain && parent.is_none() && !s.nested() && plain_supported(s.fam, s.cont, s.kids.len()) {
            let kids: Vec<PStr> = (0..s.kids.len()).map(|i| PStr::new(self.reg_leaf(true, (cid, i)))).collect();
            return make_str_plain(s.fam, s.cont, cid, kids);
        }
        match s.fam {
            #[cfg(feature = "fc-alloc")]
            Fam::FGroup => {
                let kids: Vec<KFut> = s.kids.iter().enumerate().map(|(i, k)| self.kid_fut(k, (cid, i))).collect();
                let mut g = futures_concurrency::future::FutureGroup::new();
                for f in kids {
                    g.insert(f);
                }
                Box::pin(TapS::new(cid, g, |r: R| vec![take_r(r).1]))
            }
            Fam::WaitS => {
                let inner = self.kid_str(&s.kids[0], (cid, 0));
                let deadline = self.kid_fut(&s.kids[1], (cid, 1));
                Box::pin(TapS::new(cid, StreamExt::wait_until(inner, deadline), n_item))
            }
            _ => {
                let mut kids: Vec<KStr> = s.kids.iter().enumerate().map(|(i, k)| self.kid_str(k, (cid, i))).collect();
                spare_capacity(s.cont, &mut kids);
                make_str(s.fam, s.cont, cid, kids)
            }
        }
    }
}

/// A `Vec` handed to a combinator may have spare capacity (built by `push`, `with_capacity`, ...): the Vec variants
/// reuse the caller's allocation, so `len` and `capacity` must not be confused anywhere. Random engines only.
fn spare_capacity<T>(cont: Cont, v: &mut Vec<T>) {
    if cont != Cont::Vec {
        return;
    }
    let extra = w(|w| {
        if w.small_mode || !w.chance(40) {
            0
        } else {
            w.st.vec_spare_capacity += 1;
            [1usize, 2, 3, 7, 64][w.below(5)]
        }
    });
    if extra > 0 {
        v.reserve_exact(extra);
    }
}

pub enum Root {
    F(BF),
    S(BS),
}
