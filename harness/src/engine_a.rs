//! Engine A: combinators over a fixed set of scripted children (flat and nested shapes), driven by the
//! deterministic adversarial executor.

use crate::child::*;
use crate::dut::*;
use crate::model;
use crate::world::*;
use std::collections::VecDeque;
use std::future::Future;
use std::sync::Arc;
use std::task::{Context, Poll, Waker};

#[derive(Clone, Debug)]
pub struct Profile {
    pub name: &'static str,
    pub fams: Vec<Fam>,
    pub conts: Vec<Cont>,
    /// upper bound for Vec lengths drawn uniformly; `big_lens` are drawn with `big_pct`
    pub max_n: usize,
    pub big_lens: Vec<usize>,
    pub big_pct: u32,
    pub nested_pct: u32,
    pub never_pct: u32,
    /// force between 1 and n-1 never-completing children (C20)
    pub force_never: bool,
    pub err_pct: u32,
    pub cancel_pct: u32,
    pub panic_pct: u32,
    pub spurious: u32,
    pub midfire_pct: u32,
    pub stale_pct: u32,
    pub reuse_waker_pct: u32,
    pub max_items: usize,
    pub max_pend: usize,
    /// C17: one input is always ready
    pub always_ready: bool,
    /// small-scope mode: tiny alphabet, used by the DFS sweep
    pub small: bool,
    /// DFS sweep: the shape is fixed from outside (no decisions are spent on it)
    pub force_shape: Option<(Fam, Cont, usize)>,
    /// streams only: after the final `None`, fire stale wakers and poll the combinator a few more times (C03:
    /// a finished child must not be polled again, whatever the consumer does)
    pub post_final_pct: u32,
    /// share of leaves whose destructor invokes a waker
    pub drop_wake_pct: u32,
}

pub const CONCURRENT: [Fam; 6] = [Fam::Join, Fam::TryJoin, Fam::Race, Fam::RaceOk, Fam::Merge, Fam::Zip];
pub const STATIC_ALL: [Fam; 11] = [Fam::Join, Fam::TryJoin, Fam::Race, Fam::RaceOk, Fam::Merge, Fam::Zip, Fam::Chain, Fam::FGroup, Fam::SGroup, Fam::WaitF, Fam::WaitS];

/// every flat shape of the small-scope sweep: 7 families x {tuple, array, Vec} x n in 1..=max_n that can be built
pub fn small_shapes(max_n: usize) -> Vec<(Fam, Cont, usize)> {
    let mut v = vec![];
    for fam in CONCURRENT.iter().cloned().chain([Fam::Chain]) {
        for cont in [Cont::Tuple, Cont::Array, Cont::Vec] {
            for n in 1..=max_n {
                if supported(fam, cont, n) {
                    v.push((fam, cont, n));
                }
            }
        }
    }
    // the 2-ary convenience methods (FutureExt::join / race, StreamExt::merge / zip / chain) and wait_until
    if max_n >= 2 {
        for fam in [Fam::Join, Fam::Race, Fam::Merge, Fam::Zip, Fam::Chain, Fam::WaitF, Fam::WaitS] {
            if supported(fam, Cont::Ext, 2) {
                v.push((fam, Cont::Ext, 2));
            }
        }
    }
    v
}

pub fn profile(prop: &str, thorough: bool) -> Profile {
    let all_conts = vec![Cont::Tuple, Cont::Array, Cont::Vec, Cont::Ext, Cont::Group];
    let base = Profile {
        name: "base",
        fams: STATIC_ALL.to_vec(),
        conts: all_conts,
        max_n: if thorough { 9 } else { 6 },
        big_lens: vec![],
        big_pct: 0,
        nested_pct: 25,
        never_pct: 10,
        force_never: false,
        err_pct: 35,
        cancel_pct: 0,
        panic_pct: 0,
        spurious: 3,
        midfire_pct: 25,
        stale_pct: 15,
        reuse_waker_pct: 10,
        max_items: 4,
        max_pend: 3,
        always_ready: false,
        small: false,
        force_shape: None,
        post_final_pct: 20,
        drop_wake_pct: 12,
    };
    let bigs = vec![22, 23, 24, 40, 63, 64, 65, 128, 129, 200, 256, 257];
    match prop {
        "C01" => Profile { name: "C01", big_lens: vec![22, 23, 64, 65, 129], big_pct: 3, ..base },
        "C02" => Profile { name: "C02", cancel_pct: 45, panic_pct: 30, nested_pct: 20, big_lens: vec![22, 23, 65], big_pct: 3, ..base },
        "C03" => Profile { name: "C03", stale_pct: 35, spurious: 4, never_pct: 15, ..base },
        "C20" => Profile { name: "C20", fams: vec![Fam::Join, Fam::TryJoin, Fam::Race, Fam::RaceOk, Fam::Merge, Fam::Zip, Fam::FGroup, Fam::SGroup], force_never: true, never_pct: 0, ..base },
        "C04" => Profile { name: "C04", fams: vec![Fam::Join], nested_pct: 10, err_pct: 20, big_lens: bigs, big_pct: if thorough { 12 } else { 6 }, max_n: 40, ..base },
        "C05" => Profile { name: "C05", fams: vec![Fam::TryJoin], nested_pct: 10, err_pct: 30, big_lens: bigs, big_pct: 4, max_n: 16, ..base },
        "C06" => Profile { name: "C06", fams: vec![Fam::Race], nested_pct: 10, never_pct: 20, big_lens: bigs, big_pct: 3, max_n: 16, ..base },
        "C07" => Profile { name: "C07", fams: vec![Fam::RaceOk], nested_pct: 10, err_pct: 75, big_lens: bigs, big_pct: 3, max_n: 16, ..base },
        "C08" => Profile { name: "C08", fams: vec![Fam::Merge], nested_pct: 10, max_items: 6, big_lens: bigs, big_pct: 5, max_n: 12, ..base },
        "C09" => Profile { name: "C09", fams: vec![Fam::Zip], nested_pct: 10, max_items: 5, big_lens: bigs, big_pct: 5, max_n: 10, ..base },
        "C10" => Profile { name: "C10", fams: vec![Fam::Chain], nested_pct: 10, max_items: 4, big_lens: bigs, big_pct: 6, max_n: 10, ..base },
        "C16" => Profile { name: "C16", fams: vec![Fam::Join, Fam::TryJoin, Fam::Merge, Fam::Zip, Fam::FGroup, Fam::SGroup], spurious: 6, err_pct: 15, big_lens: bigs, big_pct: 6, max_n: 12, ..base },
        "C17" => Profile { name: "C17", fams: vec![Fam::Merge], conts: vec![Cont::Tuple, Cont::Array, Cont::Vec, Cont::Ext], nested_pct: 0, always_ready: true, never_pct: 10, max_items: 8, max_n: 12, big_lens: vec![24, 64, 65, 70, 129], big_pct: 4, ..base },
        "C19" => Profile { name: "C19", fams: vec![Fam::WaitF, Fam::WaitS], nested_pct: 15, spurious: 5, ..base },
        // SMALL: n <= 2, mid-poll cross fires on; SMALL3: n <= 3, longer scripts, no mid-poll fires
        "SMALL3" => Profile { name: "SMALL3", fams: CONCURRENT.iter().cloned().chain([Fam::Chain]).collect(), conts: vec![Cont::Tuple, Cont::Array, Cont::Vec], max_n: 3, nested_pct: 0, never_pct: 0, spurious: 1, midfire_pct: 0, stale_pct: 0, reuse_waker_pct: 0, max_items: 2, max_pend: 2, small: true, ..base },
        "SMALL" => Profile { name: "SMALL", fams: CONCURRENT.iter().cloned().chain([Fam::Chain]).collect(), conts: vec![Cont::Tuple, Cont::Array, Cont::Vec], max_n: 2, nested_pct: 0, never_pct: 0, spurious: 1, midfire_pct: 50, stale_pct: 0, reuse_waker_pct: 0, max_items: 1, max_pend: 1, small: true, ..base },
        _ => Profile { name: "ALL", ..base },
    }
}

#[derive(Clone, Debug)]
pub struct CaseA {
    pub shape: Shape,
    pub leaves: Vec<LeafSpec>,
    pub cancel_at: Option<usize>,
    /// stop (and drop) after the root yielded this many items (never-ending streams, C17)
    pub max_yields: Option<usize>,
    pub spurious: u32,
    /// the (flat, array or Vec) root is built over leaf types without drop glue
    pub plain: bool,
}

fn pick<T: Clone>(w: &mut World, v: &[T]) -> T {
    v[w.below(v.len())].clone()
}

fn gen_pends(w: &mut World, s: &mut Vec<Step>, max: usize) {
    for _ in 0..w.below(max + 1) {
        s.push(if w.below(2) == 0 { Step::PendSelf } else { Step::PendLater });
    }
}

pub fn gen_script(w: &mut World, p: &Profile, stream: bool, never: bool, err_pct: u32) -> Vec<Step> {
    let mut s = vec![];
    if stream {
        let items = w.below(p.max_items + 1);
        for _ in 0..items {
            gen_pends(w, &mut s, p.max_pend);
            s.push(Step::Item);
        }
        gen_pends(w, &mut s, p.max_pend);
        s.push(Step::End);
    } else {
        gen_pends(w, &mut s, p.max_pend);
        s.push(if w.chance(err_pct) { Step::Err } else { Step::Ok });
    }
    if never {
        // cut the script somewhere and block forever from there on
        let k = w.below(s.len());
        s.truncate(k);
        for _ in 0..48 {
            s.push(Step::PendNever);
        }
    }
    s
}

/// a small inner combinator producing a future (or a stream); `deeper` > 0 lets one of its own children be a
/// combinator again
fn gen_inner(w: &mut World, want_stream: bool, deeper: u32) -> Option<Shape> {
    let inner_fams: Vec<Fam> = if want_stream {
        let mut v = vec![Fam::Merge, Fam::Zip, Fam::Chain, Fam::WaitS];
        if cfg!(feature = "fc-alloc") {
            v.extend([Fam::FGroup, Fam::SGroup]);
        }
        v
    } else {
        vec![Fam::Join, Fam::TryJoin, Fam::Race, Fam::RaceOk, Fam::WaitF]
    };
    let ifam = pick(w, &inner_fams);
    let icont = match ifam {
        Fam::FGroup | Fam::SGroup => Cont::Group,
        Fam::WaitF | Fam::WaitS => Cont::Ext,
        _ => pick(w, &[Cont::Tuple, Cont::Array, Cont::Vec]),
    };
    let inn = match icont {
        Cont::Ext => 2,
        _ => 1 + w.below(3),
    };
    if !supported(ifam, icont, inn) {
        return None;
    }
    let mut s = Shape::flat(ifam, icont, inn);
    if deeper > 0 {
        let j = w.below(inn);
        if let Some(inner) = gen_inner(w, kid_is_stream(ifam, j), deeper - 1) {
            s.kids[j] = ShapeKid::Node(inner);
        }
    }
    Some(s)
}

fn gen_shape(w: &mut World, p: &Profile) -> Shape {
    if let Some((fam, cont, n)) = p.force_shape {
        return Shape::flat(fam, cont, n);
    }
    for _ in 0..64 {
        let fam = pick(w, &p.fams);
        let cont = match fam {
            Fam::FGroup | Fam::SGroup => Cont::Group,
            Fam::WaitF | Fam::WaitS => Cont::Ext,
            _ => pick(w, &p.conts),
        };
        let n = match cont {
            Cont::Ext => 2,
            Cont::Tuple => w.below(13),
            // (257 crosses the u8 boundary of per-child indices; drawn rarely because such cases are heavy)
            Cont::Array => {
                // (stream families only in the std configuration: without sub-wakers every poll re-polls all 257 inputs,
                // which makes such executions thousands of times heavier than the rest without adding anything)
                if !p.small && w.chance(2) && (cfg!(feature = "fc-std") || !fam.stream_kids()) {
                    257
                } else if !p.small && w.chance(4) {
                    pick(w, &ARRAY_MID_LENS)
                } else {
                    pick(w, &ARRAY_LENS[..8])
                }
            }
            Cont::Vec | Cont::Group => {
                if !p.big_lens.is_empty() && w.chance(p.big_pct) {
                    pick(w, &p.big_lens)
                } else {
                    w.below(p.max_n + 1)
                }
            }
        };
        let n = if p.small { n.min(p.max_n).max(1) } else { n };
        if !supported(fam, cont, n) {
            continue;
        }
        if p.always_ready && n == 0 {
            continue;
        }
        let mut shape = Shape::flat(fam, cont, n);
        // nesting: replace some children by small inner combinators of a matching kind (one level; in a fifth of
        // the nested cases one of the inner combinator's children is itself a combinator, i.e. two levels)
        if n > 0 && n <= 6 && w.chance(p.nested_pct) {
            let k = 1 + w.below(n.min(2));
            let deep = !p.small && w.chance(20);
            for _ in 0..k {
                let i = w.below(n);
                if let Some(inner) = gen_inner(w, kid_is_stream(fam, i), if deep { 1 } else { 0 }) {
                    shape.kids[i] = ShapeKid::Node(inner);
                }
            }
        }
        return shape;
    }
    Shape::flat(Fam::Join, Cont::Tuple, 2)
}

pub fn gen_case(w: &mut World, p: &Profile) -> CaseA {
    let shape = gen_shape(w, p);
    let mut kinds = vec![];
    shape.leaf_kinds(&mut kinds);
    let nl = kinds.len();
    // which leaves never complete
    let mut never = vec![false; nl];
    if p.force_never && nl >= 2 {
        let k = 1 + w.below(nl - 1);
        let mut placed = 0;
        while placed < k {
            let i = w.below(nl);
            if !never[i] {
                never[i] = true;
                placed += 1;
            }
        }
    } else {
        for i in 0..nl {
            never[i] = w.chance(p.never_pct);
        }
    }
    // C17: one (sometimes two) inputs have an item whenever they are polled
    let always: Vec<usize> = if p.always_ready && nl > 0 {
        let mut v = vec![w.below(nl)];
        if nl >= 3 && w.chance(40) {
            let j = w.below(nl);
            if !v.contains(&j) {
                v.push(j);
            }
        }
        v
    } else {
        vec![]
    };
    let bulk: Option<usize> = if nl >= 16 && !p.small && w.chance(50) { Some(w.below(3)) } else { None };
    // ... except for up to three children at random positions, which keep their random scripts
    let bulk_except: Vec<usize> = if bulk.is_some() { (0..w.below(4)).map(|_| w.below(nl)).collect() } else { vec![] };
    let mut leaves = vec![];
    for (i, (stream, fam, idx)) in kinds.iter().enumerate() {
        // Ok/Err only matters where the family looks at it; elsewhere it is exercised at a low rate
        let err_pct = match fam {
            Fam::TryJoin | Fam::RaceOk => p.err_pct,
            Fam::WaitF | Fam::WaitS if *idx == 1 => 20,
            _ => p.err_pct / 3,
        };
        if always.contains(&i) {
            leaves.push(LeafSpec { script: vec![], always_ready: true, resumable: false, wake_on_drop: false, hint_mode: if p.small { 0 } else { w.below(2) as u8 } });
            continue;
        }
        let mut script = gen_script(w, p, *stream, never[i], err_pct);
        // large containers: in half of the cases most children share one degenerate script (all inputs empty, all
        // ready at once, all failing, all pending exactly once): long runs of inputs that end / resolve inside a
        // single poll of the combinator are otherwise vanishingly rare
        if let Some(class) = bulk {
            if !never[i] && !bulk_except.contains(&i) {
                script = match (*stream, class) {
                    (true, 0) => vec![Step::End],
                    (true, 1) => vec![Step::Item, Step::End],
                    (true, _) => vec![Step::PendLater, Step::End],
                    (false, 0) => vec![Step::Ok],
                    (false, 1) => vec![if w.chance(err_pct) { Step::Err } else { Step::Ok }],
                    (false, _) => vec![Step::PendLater, Step::Ok],
                };
            }
        }
        // C19: the inner stream of a (flat) wait_until may be non-fused; the executor then polls on after `None`
        // and wait_until has to stay a transparent view of it
        let resumable = !p.small && shape.fam == Fam::WaitS && !shape.nested() && *idx == 0 && *fam == Fam::WaitS && !never[i] && w.chance(30);
        if resumable {
            let more = gen_script(w, p, true, false, 0);
            script.extend(more);
        }
        let wake_on_drop = !p.small && w.chance(p.drop_wake_pct);
        // streams report (0, None), the exact number of items left, or a loose bound: adapters may consult it
        let hint_mode = if p.small || !*stream || resumable { 0 } else { [0u8, 0, 1, 1, 2][w.below(5)] };
        leaves.push(LeafSpec { script, always_ready: false, resumable, wake_on_drop, hint_mode });
    }
    // one injected panic at a single child poll
    if nl > 0 && w.chance(p.panic_pct) {
        let i = w.below(nl);
        if !leaves[i].always_ready {
            let l = leaves[i].script.len().min(8);
            let at = w.below(l.max(1));
            leaves[i].script.insert(at, Step::Panic);
        }
    }
    let cancel_at = if w.chance(p.cancel_pct) { Some(w.below(7)) } else { None };
    // (a few long runs: counters that wrap after 256 polls only show there)
    let max_yields = if !always.is_empty() { Some(if !p.small && w.chance(4) { 530 + w.below(300) } else { 6 * nl + w.below(2 * nl + 1) }) } else { None };
    let plain = !p.small && !shape.nested() && plain_supported(shape.fam, shape.cont, shape.kids.len()) && w.chance(15);
    if plain {
        w.st.plain_cases += 1;
        for l in leaves.iter_mut() {
            l.wake_on_drop = false; // no destructor to wake from
        }
    }
    CaseA { shape, leaves, cancel_at, max_yields, spurious: p.spurious, plain }
}

#[derive(Default, Debug)]
pub struct ExecOut {
    pub viol: Vec<Violation>,
    pub nontrivial: bool,
    pub sig: u64,
    pub inconclusive: Option<String>,
    pub desc: String,
    pub key: String,
    pub trace: Vec<String>,
    pub decisions: Vec<u32>,
    pub arities: Vec<u32>,
    /// number of polls of the outermost combinator / operation in this execution
    pub root_polls: usize,
    /// script length per leaf (engine A), for the systematic fault sweep
    pub leaf_lens: Vec<usize>,
}

/// A fault imposed on an otherwise generated case (systematic crash-point sweep, `fcv allk`).
#[derive(Clone, Copy, Debug, PartialEq, Eq)]
pub enum Fault {
    None,
    /// drop the combinator after exactly this many polls
    CancelAt(usize),
    /// leaf (in construction order) panics at this position of its script
    PanicAt(usize, usize),
}

pub fn describe_case(c: &CaseA) -> String {
    let scripts: Vec<String> = c
        .leaves
        .iter()
        .map(|l| if l.always_ready { "[Item*]".to_string() } else { format!("{:?}{}", l.script.iter().take(10).collect::<Vec<_>>(), if l.wake_on_drop { "+wake-on-drop" } else { "" }) })
        .collect();
    format!("shape={}{} cancel_at={:?} scripts={}", c.shape.describe(), if c.plain { " (children without drop glue)" } else { "" }, c.cancel_at, scripts.join(" "))
}

pub const STEP_CAP: usize = 6000;

/// Run one execution; the world must have been `reset` by the caller with the decision source.
pub fn run(p: &Profile, record_decisions: bool) -> ExecOut {
    run_fault(p, record_decisions, Fault::None)
}

/// Generate the case from the decision source, then impose `fault` on it. With `cancel_pct == panic_pct == 0`
/// the generator draws nothing for faults, so the same seed yields the same case and the same schedule up to
/// the fault point for every `fault`.
pub fn run_fault(p: &Profile, record_decisions: bool, fault: Fault) -> ExecOut {
    let mut case = w(|w| {
        w.record_decisions = record_decisions;
        w.midfire_pct = p.midfire_pct;
        gen_case(w, p)
    });
    match fault {
        Fault::None => {}
        Fault::CancelAt(k) => case.cancel_at = Some(k),
        Fault::PanicAt(i, at) => {
            if i < case.leaves.len() && !case.leaves[i].always_ready && at <= case.leaves[i].script.len() {
                case.leaves[i].script.insert(at, Step::Panic);
            }
        }
    }
    let mut o = run_case(p, &case);
    o.leaf_lens = case.leaves.iter().map(|l| l.script.iter().take_while(|s| **s != Step::PendNever).count()).collect();
    o
}

pub fn run_case(p: &Profile, case: &CaseA) -> ExecOut {
    let mut out = ExecOut { desc: describe_case(case), key: format!("{}/{}/{}", case.shape.fam.name(), case.shape.cont.name(), case.shape.kids.len()), ..Default::default() };
    let (polls0, pend0) = w(|w| (w.st.root_polls, w.st.child_pending));
    w(|w| {
        w.phase = Phase::Constructing;
        w.root = Some(0);
        w.small_mode = p.small;
    });
    let mut b = Builder { scripts: VecDeque::from(case.leaves.clone()), plain: case.plain };
    let built = std::panic::catch_unwind(std::panic::AssertUnwindSafe(|| if case.shape.fam.is_stream() { Root::S(b.build_str(&case.shape, None)) } else { Root::F(b.build_fut(&case.shape, None)) }));
    w(|w| w.phase = Phase::Idle);
    let root_prop = case.shape.fam.prop();
    let mut root = match built {
        Ok(r) => Some(r),
        Err(pn) => {
            let m = panic_msg(&pn);
            w(|w| w.violate(&[root_prop], format!("constructing the combinator panicked: {m}")));
            None
        }
    };
    let mut received: Vec<Val> = vec![];
    let mut spurious_left = case.spurious;
    let mut steps = 0usize;
    let mut polls = 0usize;
    let mut next_waker_id = 0usize;
    let mut prev_waker: Option<(usize, Waker)> = None;
    let mut cancelled = false;
    while root.is_some() {
        steps += 1;
        PROGRESS.fetch_add(1, std::sync::atomic::Ordering::Relaxed);
        // (the budget grows with the number of leaves: a 257-input merge needs thousands of legitimate steps)
        if steps > STEP_CAP + 200 * case.leaves.len() {
            out.inconclusive = Some("harness step budget exceeded".into());
            break;
        }
        let rl = w(|w| w.root_last);
        if matches!(rl, RootLast::Final | RootLast::Panicked) {
            break;
        }
        if Some(polls) == case.cancel_at || (case.max_yields.is_some() && Some(received.len()) >= case.max_yields) {
            cancelled = true;
            w(|w| w.st.cancels += 1);
            break;
        }
        // enabled actions
        let (runnable, outstanding, nwakers) = w(|w| {
            let runnable = matches!(w.root_last, RootLast::NotPolled | RootLast::Item) || (w.root_last == RootLast::Pending && w.parent_woken);
            let outstanding: Vec<Cid> = w.ch.iter().enumerate().filter(|(_, c)| c.later_outstanding).map(|(i, _)| i).collect();
            let nwakers: usize = w.ch.iter().map(|c| c.wakers.len()).sum();
            (runnable, outstanding, nwakers)
        });
        let mut opts: Vec<u8> = vec![];
        if runnable {
            opts.extend([0, 0]);
        }
        if !outstanding.is_empty() {
            opts.extend([1, 1]);
        }
        if nwakers > 0 && w(|w| w.chance(p.stale_pct)) {
            opts.push(2);
        }
        if spurious_left > 0 && !runnable && rl != RootLast::NotPolled && w(|w| w.chance(10)) {
            opts.push(3);
        }
        if opts.is_empty() {
            break; // quiescent
        }
        if p.small {
            // systematic sweep: the weights above would only duplicate branches
            opts.dedup();
        }
        let o = opts[w(|w| w.below(opts.len()))];
        match o {
            0 | 3 => {
                if o == 3 {
                    spurious_left -= 1;
                    w(|w| w.st.spurious_polls += 1);
                }
                polls += 1;
                let reuse = prev_waker.is_some() && w(|w| w.chance(p.reuse_waker_pct));
                let (wid, waker) = if reuse {
                    w(|w| w.st.reused_parent_waker += 1);
                    prev_waker.clone().unwrap()
                } else {
                    next_waker_id += 1;
                    (next_waker_id, Waker::from(Arc::new(ParentWaker(next_waker_id))))
                };
                w(|w| {
                    w.root_polls += 1;
                    w.st.root_polls += 1;
                    w.parent_cur = wid;
                    w.parent_woken = false;
                    w.phase = Phase::Polling;
                    w.injected_seen = false;
                    let n = w.root_polls;
                    w.ev(Ev::ExecPoll { n, waker: wid, spurious: o == 3 });
                });
                let mut cx = Context::from_waker(&waker);
                let polls_before = w(|w| w.st.child_polls);
                let r = std::panic::catch_unwind(std::panic::AssertUnwindSafe(|| match root.as_mut().unwrap() {
                    Root::F(f) => match f.as_mut().poll(&mut cx) {
                        Poll::Pending => (Res::Pend, None),
                        Poll::Ready(Ok(v)) => (Res::Ok(v.id), Some(v)),
                        Poll::Ready(Err(v)) => (Res::Err(v.id), Some(v)),
                    },
                    Root::S(s) => match s.as_mut().poll_next(&mut cx) {
                        Poll::Pending => (Res::Pend, None),
                        Poll::Ready(Some(v)) => (Res::Item(v.id), Some(v)),
                        Poll::Ready(None) => (Res::End, None),
                    },
                }));
                prev_waker = Some((wid, waker));
                match r {
                    Ok((res, val)) => {
                        if let Some(v) = val {
                            v.check_live("executor");
                            received.push(v);
                        }
                        w(|w| {
                            w.phase = Phase::Idle;
                            w.poll_stack.clear();
                            // (a wait_until over a non-fused inner stream is polled on after `None`)
                            // (... as long as it forwards those polls: a poll that touched no child was not forwarded,
                            // the model has reported it, and repeating it would only burn the step budget)
                            let resumes = res == Res::End && (0..w.ch.len()).any(|c| w.resumes(c)) && w.st.child_polls > polls_before;
                            w.root_last = match res {
                                Res::Pend => RootLast::Pending,
                                Res::Item(_) => RootLast::Item,
                                _ if resumes => RootLast::Item,
                                _ => RootLast::Final,
                            };
                            if resumes {
                                w.st.polls_after_none += 1;
                            }
                            if res == Res::Pend {
                                w.st.root_pending += 1;
                            }
                            w.ev(Ev::ExecRet(res.clone()));
                            if res == Res::Pend {
                                model::i2_check(w);
                            }
                            model::i1_check(w, "after poll");
                        });
                    }
                    Err(pn) => {
                        let injected = pn.is::<Injected>();
                        let m = panic_msg(&pn);
                        w(|w| {
                            w.phase = Phase::Idle;
                            // innermost combinator node that was being polled
                            let fam = w.poll_stack.iter().rev().find(|c| w.ch[**c].kind == Kind::Node).map(|c| w.ch[*c].fam);
                            w.poll_stack.clear();
                            w.root_last = RootLast::Panicked;
                            w.ev(Ev::ExecRet(Res::Panicked));
                            if !injected {
                                let prop = fam.map(|f| f.prop()).unwrap_or(root_prop);
                                w.violate(&[prop], format!("poll panicked (not an injected panic): {m}"));
                            }
                        });
                    }
                }
            }
            1 => {
                let c = outstanding[w(|w| w.below(outstanding.len()))];
                let (i, bv, twice) = w(|w| if p.small { (w.ch[c].wakers.len() - 1, false, false) } else { (w.ch[c].wakers.len() - 1, w.below(4) == 0, w.below(6) == 0) });
                fire(c, i, bv, FireCtx::Between);
                w(|w| model::i1_check(w, "after fire"));
                if twice {
                    w(|w| w.st.fires_repeated += 1);
                    fire(c, i, false, FireCtx::Between);
                    w(|w| model::i1_check(w, "after repeated fire"));
                }
            }
            _ => {
                // any waker ever handed out: stale ones, ones of finished children, the latest one again
                let (c, i, bv) = w(|w| {
                    let with: Vec<Cid> = w.ch.iter().enumerate().filter(|(_, c)| !c.wakers.is_empty()).map(|(i, _)| i).collect();
                    let c = with[w.below(with.len())];
                    let k = w.ch[c].wakers.len();
                    (c, w.below(k), w.below(4) == 0)
                });
                fire(c, i, bv, FireCtx::Between);
                w(|w| model::i1_check(w, "after stale fire"));
            }
        }
    }
    let rl = w(|w| w.root_last);
    if !cancelled && out.inconclusive.is_none() && rl == RootLast::Pending {
        w(|w| model::i6_check(w));
    }
    // A consumer may poll a stream again after `None` (some of the combinators panic by design then, which is
    // fine and ignored here); what must not happen is that a child which itself finished is polled again.
    // (wait_until is a transparent view of its inner stream and forwards such polls by design: excluded)
    if rl == RootLast::Final && !p.small && case.shape.fam != Fam::WaitS && matches!(root, Some(Root::S(_))) && w(|w| w.chance(p.post_final_pct)) {
        for _ in 0..(1 + w(|w| w.below(2))) {
            // stale wake-ups of finished children first: they re-arm readiness bits
            for _ in 0..w(|w| w.below(3)) {
                let pk = w(|w| {
                    let with: Vec<Cid> = w.ch.iter().enumerate().filter(|(_, c)| !c.wakers.is_empty()).map(|(i, _)| i).collect();
                    if with.is_empty() {
                        None
                    } else {
                        let c = with[w.below(with.len())];
                        let k = w.ch[c].wakers.len();
                        Some((c, if w.below(2) == 0 { k - 1 } else { w.below(k) }))
                    }
                });
                if let Some((c, i)) = pk {
                    fire(c, i, false, FireCtx::Between);
                }
            }
            next_waker_id += 1;
            let waker = Waker::from(Arc::new(ParentWaker(next_waker_id)));
            w(|w| {
                w.parent_cur = next_waker_id;
                w.phase = Phase::Polling;
                w.post_final = true;
                w.st.post_final_polls += 1;
                w.ev(Ev::Note("consumer polls again after the final None".into()));
            });
            let mut cx = Context::from_waker(&waker);
            let r = std::panic::catch_unwind(std::panic::AssertUnwindSafe(|| {
                if let Some(Root::S(s)) = root.as_mut() {
                    if let Poll::Ready(Some(v)) = s.as_mut().poll_next(&mut cx) {
                        received.push(v);
                    }
                }
            }));
            w(|w| {
                w.phase = Phase::Idle;
                w.poll_stack.clear();
                w.post_final = false;
                if r.is_err() {
                    w.st.post_final_panics += 1;
                }
            });
            if r.is_err() {
                break;
            }
        }
    }
    w(|w| w.small_mode = p.small);
    finish(&mut out, root.take().map(|r| Box::new(move || drop(r)) as Box<dyn FnOnce()>), received, polls0, pend0, cancelled);
    out
}

/// Common epilogue of engines A and C: drop the operation, check structured ownership, fire wakers after
/// the drop, drop what the harness received, check exactly-once accounting, collect the verdict.
pub fn finish(out: &mut ExecOut, dropper: Option<Box<dyn FnOnce()>>, received: Vec<Val>, polls0: u64, pend0: u64, cancelled: bool) {
    if let Some(d) = dropper {
        w(|w| {
            w.phase = Phase::Dropping;
            w.ev(Ev::DropRoot);
        });
        let r = std::panic::catch_unwind(std::panic::AssertUnwindSafe(d));
        w(|w| {
            w.phase = Phase::Idle;
            w.ev(Ev::DropRootDone);
            if let Err(pn) = &r {
                let m = panic_msg(pn);
                w.violate(&["C02"], format!("dropping the combinator panicked: {m}"));
            }
            // structured ownership: nothing the combinator owned outlives it (wakers are still alive here)
            for i in 0..w.ch.len() {
                if w.ch[i].created && w.ch[i].dropped == 0 && !w.ch[i].plain {
                    // C06: "the losing children ... are dropped, unfinished, together with the race future"
                    let mut props: Vec<&'static str> = vec!["C02"];
                    if let Some((p, _)) = w.ch[i].parent {
                        if w.ch[p].fam == Fam::Race && w.ch[p].kind == Kind::Node {
                            props.push("C06");
                        }
                    }
                    w.violate(&props, format!("child {i} was not dropped although the combinator that owned it has been dropped"));
                }
            }
        });
    }
    // wakers that outlive the combinator must stay harmless
    let small = w(|w| w.small_mode);
    if small {
        // systematic sweep: fire the latest waker of every child once, no decisions spent
        let all: Vec<(Cid, usize)> = w(|w| w.ch.iter().enumerate().filter(|(_, c)| !c.wakers.is_empty()).map(|(i, c)| (i, c.wakers.len() - 1)).collect());
        for (c, i) in all {
            fire(c, i, false, FireCtx::AfterDrop);
        }
    }
    for _ in 0..(if small { 0 } else { 3 }) {
        let pk = w(|w| {
            let with: Vec<Cid> = w.ch.iter().enumerate().filter(|(_, c)| !c.wakers.is_empty()).map(|(i, _)| i).collect();
            if with.is_empty() {
                None
            } else {
                let c = with[w.below(with.len())];
                let k = w.ch[c].wakers.len();
                Some((c, w.below(k), w.below(2) == 0))
            }
        });
        if let Some((c, i, bv)) = pk {
            fire(c, i, bv, FireCtx::AfterDrop);
        }
    }
    drop(received);
    w(|w| {
        for i in 0..w.vals.len() {
            if w.vals[i].state != 2 {
                let pr = w.vals[i].producer;
                // C05: "values already produced by other children are dropped rather than returned";
                // C09: zip "drops - never yields - such unmatched items"
                let mut props: Vec<&'static str> = vec!["C02"];
                if let Some((p, _)) = w.ch.get(pr).and_then(|c| c.parent) {
                    if w.ch[p].kind == Kind::Node {
                        match w.ch[p].fam {
                            Fam::TryJoin => props.push("C05"),
                            Fam::Zip => props.push("C09"),
                            _ => {}
                        }
                    }
                }
                w.violate(&props, format!("value v{i} (produced by child {pr}) was never dropped: leaked"));
            }
        }
        out.viol = std::mem::take(&mut w.viol);
        out.sig = w.sig;
        let polls = w.st.root_polls - polls0;
        let pend = w.st.child_pending - pend0;
        out.nontrivial = (polls >= 2 && pend >= 1) || (cancelled && pend >= 1) || w.injected_seen;
        out.root_polls = polls as usize;
        if w.record_decisions {
            out.decisions = w.taken.clone();
            out.arities = w.arities.clone();
        }
    });
}

pub fn trace() -> Vec<String> {
    w(|w| w.log.iter().map(fmt_ev).collect())
}

#[allow(dead_code)]
fn _assert_future<F: Future>(_: &F) {}
