use crate::engine_a::ExecOut;
pub fn run(_prop: &str, _thorough: bool, _case_seed: u64, _sub: u64) -> ExecOut { ExecOut::default() }
