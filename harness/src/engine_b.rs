//! Engine B: operation histories over FutureGroup / StreamGroup (insert, remove, reserve, extend, poll,
//! fire wakers, keyed / plain view, drop), checked against a `live: key -> member` model after every
//! operation and a per-poll reference model.

use crate::child::*;
use crate::dut::*;
use crate::engine_a::{self, ExecOut, Profile};
use crate::model;
use crate::world::*;
use futures_concurrency::future::{future_group, FutureGroup};
use futures_concurrency::stream::{stream_group, StreamGroup};
use futures_core::Stream;
use std::collections::{BTreeMap, BTreeSet, VecDeque};
use std::pin::Pin;
use std::sync::Arc;
use std::task::{Context, Poll, Waker};

#[derive(Clone, Copy, PartialEq, Eq, PartialOrd, Ord, Debug)]
enum K {
    F(future_group::Key),
    S(stream_group::Key),
}

enum G {
    FK(Pin<Box<future_group::Keyed<BF>>>),
    FP(Pin<Box<FutureGroup<BF>>>),
    SK(Pin<Box<stream_group::Keyed<BS>>>),
    SP(Pin<Box<StreamGroup<BS>>>),
}

/// group members are boxed: `insert` needs `&mut` access to the group, i.e. `Unpin` members
enum Member {
    F(BF),
    S(BS),
}

impl G {
    fn fg(&mut self) -> Option<&mut FutureGroup<BF>> {
        match self {
            G::FK(g) => Some(&mut **g.as_mut().get_mut()),
            G::FP(g) => Some(g.as_mut().get_mut()),
            _ => None,
        }
    }
    fn sg(&mut self) -> Option<&mut StreamGroup<BS>> {
        match self {
            G::SK(g) => Some(&mut **g.as_mut().get_mut()),
            G::SP(g) => Some(g.as_mut().get_mut()),
            _ => None,
        }
    }
    fn insert(&mut self, m: Member) -> K {
        match m {
            Member::F(f) => K::F(self.fg().unwrap().insert(f)),
            Member::S(s) => K::S(self.sg().unwrap().insert(s)),
        }
    }
    fn remove(&mut self, k: K) -> bool {
        match k {
            K::F(k) => self.fg().unwrap().remove(k),
            K::S(k) => self.sg().unwrap().remove(k),
        }
    }
    fn contains(&mut self, k: K) -> bool {
        match k {
            K::F(k) => self.fg().unwrap().contains_key(k),
            K::S(k) => self.sg().unwrap().contains_key(k),
        }
    }
    fn reserve(&mut self, n: usize) {
        if let Some(g) = self.fg() {
            g.reserve(n)
        } else {
            self.sg().unwrap().reserve(n)
        }
    }
    fn len_cap_empty(&mut self) -> (usize, usize, bool) {
        if let Some(g) = self.fg() {
            (g.len(), g.capacity(), g.is_empty())
        } else {
            let g = self.sg().unwrap();
            (g.len(), g.capacity(), g.is_empty())
        }
    }
    /// (key if keyed view, value id)
    fn poll(&mut self, cx: &mut Context<'_>) -> Poll<Option<(Option<K>, u64)>> {
        match self {
            G::FK(g) => g.as_mut().poll_next(cx).map(|o| o.map(|(k, r)| (Some(K::F(k)), take_r(r).1))),
            G::FP(g) => g.as_mut().poll_next(cx).map(|o| o.map(|r| (None, take_r(r).1))),
            G::SK(g) => g.as_mut().poll_next(cx).map(|o| o.map(|(k, v)| (Some(K::S(k)), take_v(v)))),
            G::SP(g) => g.as_mut().poll_next(cx).map(|o| o.map(|v| (None, take_v(v)))),
        }
    }
}

/// iterator over new members with a chosen (always legal) size_hint: `extend` / `from_iter` reserve from it
struct HintIter<T> {
    it: std::vec::IntoIter<T>,
    mode: u8,
}
impl<T> Iterator for HintIter<T> {
    type Item = T;
    fn next(&mut self) -> Option<T> {
        self.it.next()
    }
    fn size_hint(&self) -> (usize, Option<usize>) {
        let n = self.it.len();
        match self.mode {
            0 => (n, Some(n)),
            1 => (0, Some(n)),
            2 => (0, None),
            _ => (n / 2, Some(n + 3)),
        }
    }
}

/// small-scope mode (`fcv dfsb`): every decision that reaches the group is drawn with a small arity so that the
/// depth-first odometer can enumerate ALL histories of the scope; decisions that do not influence the library
/// (by-value vs by-ref fires, waker reuse, weights) are fixed
#[derive(Clone, Copy, Debug)]
pub struct SmallB {
    pub cap0: usize,
    pub keyed: bool,
    pub max_ops: usize,
    pub members: usize,
}

thread_local! {
    static SMALL: std::cell::Cell<Option<SmallB>> = std::cell::Cell::new(None);
    static MASS: std::cell::Cell<bool> = std::cell::Cell::new(false);
    static MASS_CLASS: std::cell::Cell<usize> = std::cell::Cell::new(0);
}

struct Hist {
    streams: bool,
    keyed: bool,
    live: BTreeMap<K, Cid>,
    /// members inserted through `extend`: their key is unknown until they are yielded
    unknown: Vec<Cid>,
    all_keys: Vec<K>,
    ever_used: BTreeSet<K>,
    slot_ids: BTreeMap<K, usize>,
    prop: &'static str,
    /// index-in-parent counter for members
    next_idx: usize,
}

impl Hist {
    fn slot_id(&mut self, k: K) -> usize {
        let n = self.slot_ids.len();
        *self.slot_ids.entry(k).or_insert(n)
    }
    fn viol(&self, msg: String) {
        let p = self.prop;
        w(|w| w.violate(&[p], msg));
    }
    fn sync_live(&self) {
        let m: BTreeMap<usize, Cid> = self.live.iter().map(|(k, c)| (self.slot_ids[k], *c)).collect();
        w(|w| w.live_slot = m);
    }
}

fn small() -> Option<SmallB> {
    SMALL.with(|s| s.get())
}

fn new_member(h: &mut Hist, p: &Profile, nested_pct: u32) -> (Member, Cid) {
    let idx = h.next_idx;
    h.next_idx += 1;
    let streams = h.streams;
    let nested = w(|w| w.chance(nested_pct));
    if nested {
        // FutureGroup∘{join,try_join,race}, StreamGroup∘{merge,zip,chain}
        let (fam, n) = w(|w| {
            let fams: &[Fam] = if streams { &[Fam::Merge, Fam::Zip, Fam::Chain] } else { &[Fam::Join, Fam::TryJoin, Fam::Race] };
            (fams[w.below(fams.len())], 1 + w.below(3))
        });
        let cont = w(|w| [Cont::Vec, Cont::Array, Cont::Tuple][w.below(3)]);
        let shape = Shape::flat(fam, cont, n);
        let mut kinds = vec![];
        shape.leaf_kinds(&mut kinds);
        let scripts: Vec<LeafSpec> = kinds
            .iter()
            .map(|(st, _, _)| LeafSpec {
                script: w(|w| {
                    let never = w.chance(p.never_pct);
                    engine_a::gen_script(w, p, *st, never, p.err_pct)
                }),
                always_ready: false,
                resumable: false,
                wake_on_drop: w(|w| w.chance(p.drop_wake_pct)),
                hint_mode: w(|w| [0u8, 1, 2][w.below(3)]),
            })
            .collect();
        let mut b = Builder { scripts: VecDeque::from(scripts), plain: false };
        let before = w(|w| w.ch.len());
        let m = if streams { Member::S(b.build_str(&shape, Some((0, idx)))) } else { Member::F(b.build_fut(&shape, Some((0, idx)))) };
        (m, before)
    } else {
        let cid = w(|w| {
            let never = w.chance(p.never_pct);
            let mut script = engine_a::gen_script(w, p, streams, never, p.err_pct);
            if MASS.with(|m| m.get()) && !w.chance(20) {
                // (one degenerate class per history, so that most members finish in the same poll)
                script = match (streams, MASS_CLASS.with(|m| m.get())) {
                    (true, 0) => vec![Step::End],
                    (true, 1) => vec![Step::Item, Step::End],
                    (true, _) => vec![Step::PendLater, Step::End],
                    (false, 0) => vec![Step::Ok],
                    (false, 1) => vec![Step::Err],
                    (false, _) => vec![Step::PendLater, Step::Ok],
                };
            }
            if w.inject_panic && w.chance(12) {
                let at = w.below(script.len().min(6).max(1));
                script.insert(at, Step::Panic);
            }
            let mut c = Child::leaf(if streams { Kind::LeafStr } else { Kind::LeafFut }, script);
            c.parent = Some((0, idx));
            c.wake_on_drop = w.chance(p.drop_wake_pct);
            c.hint_mode = if small().is_some() { 0 } else { [0u8, 1, 2][w.below(3)] };
            if c.never {
                w.st.never_children += 1;
            }
            w.ch.push(c);
            let cid = w.ch.len() - 1;
            w.ch[0].kids.push(cid);
            cid
        });
        let m = if streams { Member::S(Box::pin(KStr::Leaf(SStr::new(cid)))) } else { Member::F(Box::pin(KFut::Leaf(SFut::new(cid)))) };
        (m, cid)
    }
}

pub fn run(prop: &str, thorough: bool, case_seed: u64, sub: u64) -> ExecOut {
    reset(Src::Rng(case_seed), true);
    SMALL.with(|s| s.set(None));
    run_inner(prop, thorough, sub)
}

/// one history of the small scope; the caller has installed the decision source (`Src::Script`)
pub fn run_small(prop: &str, sb: SmallB) -> ExecOut {
    SMALL.with(|s| s.set(Some(sb)));
    let o = run_inner(prop, false, 0);
    SMALL.with(|s| s.set(None));
    o
}

fn run_inner(prop: &str, thorough: bool, sub: u64) -> ExecOut {
    let sm = small();
    let prop_s: &'static str = match prop {
        "C11" => "C11",
        "C12" => "C12",
        _ => {
            if sub % 2 == 0 {
                "C11"
            } else {
                "C12"
            }
        }
    };
    let streams = prop_s == "C12";
    let mut p = engine_a::profile(if sm.is_some() { "SMALL" } else { "ALL" }, thorough);
    if sm.is_some() {
        p.midfire_pct = 0;
        p.err_pct = 0;
        p.drop_wake_pct = 0;
    } else {
        p.max_items = 3;
        p.never_pct = 12;
    }
    let c02 = prop == "C02" && sm.is_none();
    let (polls0, pend0) = w(|w| {
        w.midfire_pct = p.midfire_pct;
        if sm.is_some() {
            w.small_mode = true;
            w.record_decisions = true;
        }
        w.inject_panic = c02;
        (w.st.root_polls, w.st.child_pending)
    });
    let (cap0, keyed, nested_pct) = match sm {
        Some(sb) => (sb.cap0, sb.keyed, 0),
        None => w(|w| (w.below(4), w.below(3) != 0, if w.below(4) == 0 { 30 } else { 0 })),
    };
    // group node = child 0
    w(|w| {
        let mut c = Child::node(if streams { Fam::SGroup } else { Fam::FGroup }, Cont::Group, 0);
        c.created = true;
        c.dropped = 0;
        w.ch.push(c);
        w.root = Some(0);
        w.phase = Phase::Constructing;
    });
    let mut h = Hist { streams, keyed, live: BTreeMap::new(), unknown: vec![], all_keys: vec![], ever_used: BTreeSet::new(), slot_ids: BTreeMap::new(), prop: prop_s, next_idx: 0 };
    // constructor: with_capacity(n) | new() | from_iter(initial members, any legal size_hint)
    let ctor = if sm.is_some() { 0 } else { w(|w| [0u8, 0, 1, 2][w.below(4)]) };
    // "mass" histories (6 %): many members, most of them degenerate (end / resolve at once, or after one wake), so
    // that ten and more members finish inside one poll of the group (inline buffers of the library spill there)
    let mass = sm.is_none() && w(|w| w.chance(6));
    MASS.with(|m| m.set(mass));
    MASS_CLASS.with(|m| m.set(if sm.is_some() { 0 } else { w(|w| w.below(3)) }));
    let mut inserts_left = match sm {
        Some(sb) => sb.members,
        None => {
            if mass {
                11 + w(|w| w.below(8))
            } else {
                2 + w(|w| w.below(if thorough { 10 } else { 8 }))
            }
        }
    };
    let mut reserves_left = 1usize;
    let mut ctor_desc = format!("with_capacity({cap0})");
    let mut init_f: Vec<BF> = vec![];
    let mut init_s: Vec<BS> = vec![];
    let mut init_mode = 0u8;
    if ctor == 2 {
        let k = w(|w| w.below(4));
        init_mode = w(|w| w.below(4) as u8);
        let mut ids = vec![];
        for _ in 0..k.min(inserts_left) {
            inserts_left -= 1;
            let (m, cid) = new_member(&mut h, &p, nested_pct);
            ids.push(cid);
            match m {
                Member::F(f) => init_f.push(f),
                Member::S(s) => init_s.push(s),
            }
        }
        w(|w| w.st.group_inserts += ids.len() as u64);
        h.unknown.extend(ids.iter().cloned());
        ctor_desc = format!("from_iter({ids:?}, hint mode {init_mode})");
    } else if ctor == 1 {
        ctor_desc = "new()".into();
    }
    let built = std::panic::catch_unwind(std::panic::AssertUnwindSafe(|| match (streams, ctor) {
        (false, 0) => FutureGroup::with_capacity(cap0),
        (false, 1) => FutureGroup::new(),
        (false, _) => FutureGroup::from_iter(HintIter { it: std::mem::take(&mut init_f).into_iter(), mode: init_mode }),
        _ => FutureGroup::new(),
    }));
    let built_s = std::panic::catch_unwind(std::panic::AssertUnwindSafe(|| match (streams, ctor) {
        (true, 0) => StreamGroup::with_capacity(cap0),
        (true, 1) => StreamGroup::new(),
        (true, _) => StreamGroup::from_iter(HintIter { it: std::mem::take(&mut init_s).into_iter(), mode: init_mode }),
        _ => StreamGroup::new(),
    }));
    let (fgroup, sgroup) = match (built, built_s) {
        (Ok(f), Ok(s)) => (f, s),
        (a, b) => {
            let m = a.err().or(b.err()).map(|pn| panic_msg(&pn)).unwrap_or_default();
            h.viol(format!("constructing the group ({ctor_desc}) panicked: {m}"));
            (FutureGroup::new(), StreamGroup::new())
        }
    };
    let mut g = match (streams, keyed) {
        (false, true) => G::FK(Box::pin(fgroup.keyed())),
        (false, false) => G::FP(Box::pin(fgroup)),
        (true, true) => G::SK(Box::pin(sgroup.keyed())),
        (true, false) => G::SP(Box::pin(sgroup)),
    };
    w(|w| w.phase = Phase::Idle);
    let mut out = ExecOut { key: format!("{}/{}", if streams { "stream_group" } else { "future_group" }, if keyed { "keyed" } else { "plain" }), ..Default::default() };
    let mut runnable = true;
    let max_ops = match sm {
        Some(sb) => sb.max_ops,
        None => 40 + w(|w| w.below(if thorough { 80 } else { 30 })),
    };
    let mut ops = 0usize;
    let mut steps = 0usize;
    let mut next_waker_id = 0usize;
    let mut prev_waker: Option<(usize, Waker)> = None;
    let mut panicked = false;
    let mut saw_none = false;
    let mut last_cap = g.len_cap_empty().1;
    let mut draining = false;
    let mut burst_left = if mass { inserts_left.saturating_sub(w(|w| w.below(3))) } else { 0 };
    let mut oplog: Vec<String> = vec![format!("{ctor_desc}{}", if keyed { ".keyed()" } else { "" })];
    loop {
        steps += 1;
        PROGRESS.fetch_add(1, std::sync::atomic::Ordering::Relaxed);
        if steps > 3000 {
            out.inconclusive = Some("harness step budget exceeded".into());
            break;
        }
        if panicked {
            break;
        }
        if !draining && ops >= max_ops {
            // history is over: let a wake-only executor run the group to quiescence (I6), then drop
            if c02 && w(|w| w.below(2) == 0) {
                w(|w| w.st.cancels += 1);
                break; // cancellation at an arbitrary point
            }
            draining = true;
        }
        let (outstanding, nwakers) = w(|w| {
            let o: Vec<Cid> = w.ch.iter().enumerate().filter(|(_, c)| c.later_outstanding).map(|(i, _)| i).collect();
            let n: usize = w.ch.iter().map(|c| c.wakers.len()).sum();
            (o, n)
        });
        let woken = w(|w| w.root_last == RootLast::Pending && w.parent_woken);
        let can_poll = runnable || woken;
        let mut opts: Vec<u8> = vec![];
        if sm.is_some() {
            // small scope: every applicable operation exactly once, nothing gated by chance
            if can_poll {
                opts.push(0);
            }
            if !outstanding.is_empty() {
                opts.push(1);
            }
            if !draining {
                if inserts_left > 0 {
                    opts.push(2);
                }
                if !h.all_keys.is_empty() {
                    opts.push(3);
                }
                if nwakers > 0 {
                    opts.push(4);
                }
                if reserves_left > 0 {
                    opts.push(5);
                }
                if !can_poll {
                    opts.push(6);
                }
            }
        } else {
        if can_poll {
            opts.extend([0, 0, 0]);
        }
        if !outstanding.is_empty() {
            opts.extend([1, 1]);
        }
        if !draining {
            if inserts_left > 0 {
                opts.extend([2, 2]);
            }
            if !h.all_keys.is_empty() {
                opts.push(3);
            }
            if nwakers > 0 {
                opts.push(4);
            }
            if w(|w| w.below(8) == 0) {
                opts.push(5);
            }
            if !can_poll && w(|w| w.below(10) == 0) {
                opts.push(6);
            }
            if !streams && inserts_left > 1 && w(|w| w.below(10) == 0) {
                opts.push(7);
            }
        }
        }
        if opts.is_empty() {
            if draining {
                break;
            }
            ops = max_ops;
            continue;
        }
        if sm.is_none() && !draining && opts.iter().all(|o| *o == 3 || *o == 4) && w(|w| w.below(3) == 0) {
            ops = max_ops;
            continue;
        }
        let mut o = opts[w(|w| w.below(opts.len()))];
        // mass histories start with a burst of inserts, so that many members are polled for the first time (and may
        // finish) in one and the same poll of the group
        if burst_left > 0 && inserts_left > 0 && !draining {
            burst_left -= 1;
            o = 2;
        }
        ops += 1;
        match o {
            0 | 6 => {
                if o == 6 {
                    w(|w| w.st.spurious_polls += 1);
                }
                let reuse = sm.is_none() && prev_waker.is_some() && w(|w| w.chance(10));
                let (wid, waker) = if reuse {
                    prev_waker.clone().unwrap()
                } else {
                    next_waker_id += 1;
                    (next_waker_id, Waker::from(Arc::new(ParentWaker(next_waker_id))))
                };
                w(|w| {
                    w.root_polls += 1;
                    w.st.root_polls += 1;
                    w.parent_cur = wid;
                    w.parent_woken = false;
                    w.phase = Phase::Polling;
                    w.ch[0].model.cur.clear();
                    let n = w.root_polls;
                    w.ev(Ev::ExecPoll { n, waker: wid, spurious: o == 6 });
                });
                let was_empty = h.live.is_empty() && h.unknown.is_empty();
                let mut cx = Context::from_waker(&waker);
                let r = std::panic::catch_unwind(std::panic::AssertUnwindSafe(|| g.poll(&mut cx)));
                prev_waker = Some((wid, waker));
                w(|w| {
                    w.phase = Phase::Idle;
                    w.poll_stack.clear();
                });
                let res = match r {
                    Ok(r) => r,
                    Err(pn) => {
                        panicked = true;
                        let m = panic_msg(&pn);
                        let inj = pn.is::<Injected>();
                        w(|w| {
                            w.root_last = RootLast::Panicked;
                            w.ev(Ev::ExecRet(Res::Panicked));
                        });
                        if !inj {
                            h.viol(format!("polling the group panicked: {m}"));
                        }
                        continue;
                    }
                };
                // reference model for this poll, from what the members returned
                let rets: Vec<(usize, Res)> = w(|w| std::mem::take(&mut w.ch[0].model.cur));
                let member_of: BTreeMap<usize, Cid> = w(|w| w.ch[0].kids.iter().map(|c| (w.ch[*c].parent.unwrap().1, *c)).collect());
                let mut exp: Option<(Option<K>, u64)> = None;
                let mut ended: Vec<Cid> = vec![];
                for (k, (idx, res)) in rets.iter().enumerate() {
                    let c = member_of[idx];
                    let key = h.live.iter().find(|(_, m)| **m == c).map(|(k, _)| *k);
                    let is_live = key.is_some() || h.unknown.contains(&c);
                    if !is_live {
                        h.viol(format!("polled child {c}, which is not a live member (removed or already finished)"));
                    }
                    let mut forget = false;
                    match res {
                        Res::Ok(v) | Res::Err(v) => {
                            exp = Some((key, *v));
                            forget = true;
                        }
                        Res::Item(v) => exp = Some((key, *v)),
                        Res::End => {
                            forget = true;
                            ended.push(c);
                        }
                        _ => {}
                    }
                    if forget {
                        if let Some(k) = key {
                            h.live.remove(&k);
                        }
                        h.unknown.retain(|x| *x != c);
                    }
                    if exp.is_some() {
                        if k + 1 != rets.len() {
                            h.viol("another member was polled after a member produced the value for this poll".into());
                        }
                        break;
                    }
                }
                let now_empty = h.live.is_empty() && h.unknown.is_empty();
                let expect: Poll<Option<(Option<K>, u64)>> = match exp {
                    Some(e) => Poll::Ready(Some(e)),
                    None => {
                        if was_empty || now_empty {
                            Poll::Ready(None)
                        } else {
                            Poll::Pending
                        }
                    }
                };
                // compare (a key is only comparable in keyed mode and when the member's key is known)
                let matches = match (&res, &expect) {
                    (Poll::Pending, Poll::Pending) => true,
                    (Poll::Ready(None), Poll::Ready(None)) => true,
                    (Poll::Ready(Some((gk, gv))), Poll::Ready(Some((ek, ev)))) => {
                        gv == ev
                            && match (gk, ek) {
                                (Some(a), Some(b)) => a == b,
                                (Some(a), None) => {
                                    // member came from `extend`: learn its key; it must not belong to another live member
                                    !h.live.contains_key(a)
                                }
                                _ => true,
                            }
                    }
                    _ => false,
                };
                if !matches {
                    h.viol(format!("group poll returned {res:?}, reference model says {expect:?} (member results this poll: {:?})", rets.iter().map(|(i, r)| format!("child {}:{}", member_of[i], fmt_res(r))).collect::<Vec<_>>()));
                }
                for c in ended {
                    if w(|w| w.ch[c].dropped) != 1 {
                        h.viol(format!("stream member {c} returned None but was not dropped in that poll"));
                    }
                }
                h.sync_live();
                let pend = res.is_pending();
                w(|w| {
                    w.root_last = match res {
                        Poll::Pending => RootLast::Pending,
                        Poll::Ready(Some(_)) => RootLast::Item,
                        Poll::Ready(None) => RootLast::NotPolled,
                    };
                    let r = match res {
                        Poll::Pending => Res::Pend,
                        Poll::Ready(Some((_, v))) => Res::Item(v),
                        Poll::Ready(None) => Res::End,
                    };
                    if pend {
                        w.st.root_pending += 1;
                    }
                    if r == Res::End {
                        w.st.group_none += 1;
                    }
                    w.ev(Ev::ExecRet(r));
                    if pend {
                        model::i2_check(w);
                    }
                    model::i1_check(w, "after poll");
                });
                if matches!(res, Poll::Ready(None)) {
                    saw_none = true;
                }
                runnable = matches!(res, Poll::Ready(Some(_)));
            }
            1 => {
                let c = outstanding[w(|w| w.below(outstanding.len()))];
                let (i, bv) = w(|w| (w.ch[c].wakers.len() - 1, sm.is_none() && w.below(4) == 0));
                fire(c, i, bv, FireCtx::Between);
                w(|w| model::i1_check(w, "after fire"));
            }
            4 => {
                let (c, i, bv) = w(|w| {
                    let with: Vec<Cid> = w.ch.iter().enumerate().filter(|(_, c)| !c.wakers.is_empty()).map(|(i, _)| i).collect();
                    let c = with[w.below(with.len())];
                    let k = w.ch[c].wakers.len();
                    (c, w.below(k), sm.is_none() && w.below(4) == 0)
                });
                fire(c, i, bv, FireCtx::Between);
                w(|w| model::i1_check(w, "after stale fire"));
            }
            2 | 7 => {
                let count = if o == 7 { 1 + w(|w| w.below(2)) } else { 1 };
                let mut batch: Vec<(Member, Cid)> = vec![];
                for _ in 0..count {
                    if inserts_left == 0 {
                        break;
                    }
                    inserts_left -= 1;
                    batch.push(new_member(&mut h, &p, nested_pct));
                }
                w(|w| {
                    w.phase = Phase::GroupOp;
                    w.st.group_inserts += batch.len() as u64;
                    if saw_none {
                        w.st.group_refills += 1;
                    }
                });
                saw_none = false;
                if o == 7 {
                    let ids: Vec<Cid> = batch.iter().map(|b| b.1).collect();
                    w(|w| w.ev(Ev::Op(format!("extend({ids:?})"))));
                    oplog.push(format!("extend({ids:?})"));
                    let futs: Vec<BF> = batch.into_iter().map(|(m, _)| match m { Member::F(f) => f, Member::S(_) => unreachable!() }).collect();
                    let mode = w(|w| w.below(4) as u8);
                    let r = std::panic::catch_unwind(std::panic::AssertUnwindSafe(|| g.fg().unwrap().extend(HintIter { it: futs.into_iter(), mode })));
                    if let Err(pn) = r {
                        h.viol(format!("extend panicked: {}", panic_msg(&pn)));
                        panicked = true;
                    }
                    h.unknown.extend(ids);
                } else {
                    let (m, cid) = batch.pop().unwrap();
                    let r = std::panic::catch_unwind(std::panic::AssertUnwindSafe(|| g.insert(m)));
                    match r {
                        Err(pn) => {
                            h.viol(format!("insert panicked: {}", panic_msg(&pn)));
                            panicked = true;
                        }
                        Ok(k) => {
                            if h.live.contains_key(&k) {
                                h.viol(format!("insert returned key {k:?}, which belongs to a live member"));
                            }
                            let sid = h.slot_id(k);
                            if !h.ever_used.insert(k) {
                                w(|w| w.st.group_reuse_inserts += 1);
                            }
                            h.live.insert(k, cid);
                            if !h.all_keys.contains(&k) {
                                h.all_keys.push(k);
                            }
                            w(|w| {
                                w.ch[cid].slot = Some(sid);
                                w.ev(Ev::Op(format!("insert(child {cid}) -> slot {sid}")));
                            });
                            oplog.push(format!("insert(child {cid})->slot{sid}"));
                        }
                    }
                }
                w(|w| {
                    w.phase = Phase::Idle;
                    // owner action: the owner polls again after inserting; the group (correctly) wakes nobody
                    if w.root_last == RootLast::Pending {
                        w.root_last = RootLast::NotPolled;
                    }
                });
                h.sync_live();
                runnable = true;
            }
            3 => {
                let k = h.all_keys[w(|w| w.below(h.all_keys.len()))];
                let sid = h.slot_id(k);
                w(|w| {
                    w.phase = Phase::GroupOp;
                    w.st.group_removes += 1;
                    w.ev(Ev::Op(format!("remove(slot {sid})")));
                });
                oplog.push(format!("remove(slot{sid})"));
                let r = std::panic::catch_unwind(std::panic::AssertUnwindSafe(|| g.remove(k)));
                w(|w| w.phase = Phase::Idle);
                match r {
                    Err(pn) => {
                        h.viol(format!("remove panicked: {}", panic_msg(&pn)));
                        panicked = true;
                    }
                    Ok(r) => {
                        // a key of an `extend`-inserted member may coincide with a key we know from earlier
                        let known = h.live.contains_key(&k);
                        if known && !r {
                            h.viol(format!("remove(slot {sid}) returned false although the member is live"));
                        }
                        if !known && r {
                            if h.unknown.is_empty() {
                                h.viol(format!("remove(slot {sid}) returned true although no member lives there"));
                            } else {
                                // it removed one of the extend-inserted members: find out which one was dropped
                                let gone: Vec<Cid> = h.unknown.iter().cloned().filter(|c| w(|w| w.ch[*c].dropped) > 0).collect();
                                if gone.len() != 1 {
                                    h.viol(format!("remove(slot {sid}) returned true but {} extend-inserted members were dropped", gone.len()));
                                }
                                h.unknown.retain(|c| !gone.contains(c));
                            }
                        }
                        if let Some(c) = h.live.remove(&k) {
                            if w(|w| w.ch[c].dropped) != 1 {
                                h.viol(format!("removed member {c} was not dropped at removal"));
                            }
                        }
                    }
                }
                h.sync_live();
                if h.live.is_empty() && h.unknown.is_empty() {
                    runnable = true;
                    w(|w| {
                        if w.root_last == RootLast::Pending {
                            w.root_last = RootLast::NotPolled;
                        }
                    });
                }
            }
            _ => {
                let n = if sm.is_some() { [1usize, 3][w(|w| w.below(2))] } else { w(|w| w.below(6)) };
                reserves_left = reserves_left.saturating_sub(1);
                w(|w| {
                    w.phase = Phase::GroupOp;
                    w.st.group_reserves += 1;
                    w.ev(Ev::Op(format!("reserve({n})")));
                });
                oplog.push(format!("reserve({n})"));
                let r = std::panic::catch_unwind(std::panic::AssertUnwindSafe(|| g.reserve(n)));
                w(|w| w.phase = Phase::Idle);
                if let Err(pn) = r {
                    h.viol(format!("reserve panicked: {}", panic_msg(&pn)));
                    panicked = true;
                }
            }
        }
        if panicked {
            continue;
        }
        // set view after every operation
        let (len, cap, empty) = g.len_cap_empty();
        let mlen = h.live.len() + h.unknown.len();
        if len != mlen || empty != (mlen == 0) {
            h.viol(format!("len() = {len}, is_empty() = {empty}, but {mlen} members are live in the model"));
        }
        if cap < len {
            h.viol(format!("capacity() = {cap} < len() = {len}"));
        }
        if cap > last_cap {
            w(|w| w.st.group_grows += 1);
        }
        last_cap = cap;
        if h.unknown.is_empty() {
            for k in h.all_keys.clone() {
                let c = g.contains(k);
                if c != h.live.contains_key(&k) {
                    let sid = h.slot_id(k);
                    h.viol(format!("contains_key(slot {sid}) = {c}, model says {}", !c));
                }
            }
        } else {
            for k in h.live.keys().cloned().collect::<Vec<_>>() {
                if !g.contains(k) {
                    let sid = h.slot_id(k);
                    h.viol(format!("contains_key(slot {sid}) = false for a live member"));
                }
            }
        }
    }
    let rl = w(|w| w.root_last);
    if draining && !panicked && out.inconclusive.is_none() && rl == RootLast::Pending && !runnable {
        w(|w| model::i6_check(w));
    }
    let cancelled = !draining;
    out.desc = format!("{} {} ops=[{}]", if streams { "StreamGroup" } else { "FutureGroup" }, if keyed { "keyed" } else { "plain" }, oplog.join("; "));
    w(|w| w.ch[0].dropped = 1); // the bookkeeping node itself is not a child of the group
    engine_a::finish(&mut out, Some(Box::new(move || drop(g))), vec![], polls0, pend0, cancelled);
    let _ = h.keyed;
    out
}

