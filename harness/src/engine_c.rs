//! Engine C: ConcurrentStream pipelines (source -> stack of map/enumerate/take/limit -> terminal) with a
//! scripted source and scripted per-item futures; oracles for C13, C14, C15 (+ C01/C02/C03 on pipelines).

use crate::child::*;
use crate::engine_a::{self, ExecOut};
use crate::mix;
use crate::model;
use crate::world::*;
use futures_concurrency::prelude::*;
use futures_core::Stream;
use std::cell::RefCell;
use std::collections::BTreeMap;
use std::future::Future;
use std::marker::PhantomPinned;
use std::num::NonZeroUsize;
use std::pin::Pin;
use std::sync::Arc;
use std::task::{Context, Poll, Waker};

/// an item travelling through the pipeline
pub struct It {
    pub pos: u64,
    pub val: Val,
    pub idx: [u32; 3],
    pub nidx: u8,
    pub maps: u8,
}
impl It {
    fn with_idx(mut self, i: usize, stage: usize) -> It {
        if i as u64 != self.pos {
            let pos = self.pos;
            w(|w| w.violate(&["C15"], format!("enumerate (stage {stage}) paired source item #{pos} with index {i}")));
        }
        if (self.nidx as usize) < 3 {
            self.idx[self.nidx as usize] = i as u32;
            self.nidx += 1;
        }
        self
    }
}

#[derive(Default, Clone, Debug)]
struct Params {
    seed: u64,
    len: usize,
    limits: Vec<usize>,
    takes: Vec<usize>,
    err_pct: u32,
    never_pct: u32,
    panic_pct: u32,
    stack: usize,
    term: u8,
    src_vec: bool,
    /// what the source stream reports from size_hint(): 0 = (0, None), 1 = exact, 2 = loose upper bound, 3 = (0, Some(usize::MAX))
    hint: u8,
    // filled while building
    next_limit: usize,
    next_take: usize,
    next_stage: usize,
    eff_limit: Option<usize>,
    eff_take: Option<usize>,
    map_stages: Vec<usize>,
    /// small-scope mode (`fcv dfsc`): per source position the code of the terminal closure's future
    /// (0 ready, 1 Pending+self-wake, 2 Pending+wake-later; +4 = resolves to Err) and of the map futures (0 ready, 1 wake-later)
    small: Option<(Vec<u8>, Vec<u8>)>,
}

/// scope of the small sweep: one adapter stack x terminal x source kind per process
#[derive(Clone, Copy, Debug)]
pub struct SmallC {
    pub stack: usize,
    pub term: u8,
    pub src_vec: bool,
    pub max_len: usize,
}
thread_local! { static SMALLC: std::cell::Cell<Option<SmallC>> = std::cell::Cell::new(None); }
pub fn n_stacks() -> usize {
    STACKS.len()
}
pub fn vec_stack_ok(stack: usize) -> bool {
    VEC_STACKS.contains(&stack)
}
thread_local! { static P: RefCell<Params> = RefCell::new(Params::default()); }
fn p<T>(f: impl FnOnce(&mut Params) -> T) -> T {
    P.with(|x| f(&mut x.borrow_mut()))
}
fn next_stage(map: bool) -> usize {
    p(|p| {
        p.next_stage += 1;
        if map {
            p.map_stages.push(p.next_stage);
        }
        p.next_stage
    })
}
fn next_take() -> usize {
    p(|p| {
        let n = p.takes[p.next_take % p.takes.len()];
        p.next_take += 1;
        p.eff_take = Some(p.eff_take.map(|t| t.min(n)).unwrap_or(n));
        n
    })
}
fn next_limit() -> Option<NonZeroUsize> {
    p(|p| {
        let n = p.limits[p.next_limit % p.limits.len()];
        p.next_limit += 1;
        // the outermost limit() of the chain is the effective one; limit(None) means unlimited
        p.eff_limit = if n == 0 { None } else { Some(n) };
        NonZeroUsize::new(n)
    })
}

// ------------------------------------------------------------------------------------------------
// per-item scripted futures, created by the closures

pub struct WFut {
    id: Cid,
    role: u8,
    done: bool,
    _pin: PhantomPinned,
}
impl WFut {
    /// role 1 = future returned by the terminal closure, role 2 = future returned by a map closure
    pub fn new(role: u8, pos: u64, stage: usize) -> WFut {
        let (seed, err_pct, never_pct, panic_pct) = p(|p| (p.seed, p.err_pct, p.never_pct, p.panic_pct));
        let small_code: Option<u8> = p(|p| p.small.as_ref().map(|(t, m)| if role == 1 { t.get(pos as usize).cloned().unwrap_or(0) } else { m.get(pos as usize).cloned().unwrap_or(0) }));
        // the script depends on (seed, item, role, stage) only — not on the order of closure invocations
        let mut h = mix(mix(seed, pos * 16 + role as u64), stage as u64 + 99);
        let mut rnd = move || {
            h ^= h << 13;
            h ^= h >> 7;
            h ^= h << 17;
            h
        };
        let mut s = vec![];
        for _ in 0..(rnd() % 3) {
            s.push(if rnd() % 2 == 0 { Step::PendSelf } else { Step::PendLater });
        }
        if (rnd() % 100) < panic_pct as u64 {
            s.push(Step::Panic);
        }
        if (rnd() % 100) < never_pct as u64 {
            for _ in 0..48 {
                s.push(Step::PendNever);
            }
        }
        s.push(if role == 1 && (rnd() % 100) < err_pct as u64 { Step::Err } else { Step::Ok });
        if let Some(c) = small_code {
            s.clear();
            match c & 3 {
                1 => s.push(Step::PendSelf),
                2 => s.push(Step::PendLater),
                _ => {}
            }
            s.push(if role == 1 && c & 4 != 0 { Step::Err } else { Step::Ok });
        }
        let id = w(|w| {
            if w.phase != Phase::Polling {
                let ph = w.phase;
                w.violate(&["C03"], format!("closure for item #{pos} invoked outside a poll of the operation (phase {ph:?})"));
            }
            let mut c = Child::leaf(Kind::LeafFut, s);
            c.role = role;
            c.item = pos;
            c.created = true;
            if c.never {
                w.st.never_children += 1;
            }
            w.ch.push(c);
            w.st.children_created += 1;
            let id = w.ch.len() - 1;
            w.co.created.push((role, pos * 100 + stage as u64, id));
            if role == 1 {
                w.st.co_closure_calls += 1;
                w.co.gauge += 1;
                w.co.max_gauge = w.co.max_gauge.max(w.co.gauge);
                w.st.co_max_gauge = w.st.co_max_gauge.max(w.co.gauge as u64);
                if w.co.limit_applies {
                    w.st.co_gauge_checks += 1;
                    if w.co.gauge > w.co.limit {
                        let (g, l) = (w.co.gauge, w.co.limit);
                        w.violate(&["C13"], format!("concurrency limit {l} exceeded: {g} closure futures are created and not yet completed (at the invocation for item #{pos})"));
                    }
                }
            }
            id
        });
        WFut { id, role, done: false, _pin: PhantomPinned }
    }
}
impl Future for WFut {
    type Output = R;
    fn poll(self: Pin<&mut Self>, cx: &mut Context<'_>) -> Poll<R> {
        // reuse the leaf machinery through a temporary SFut-like path
        let this = unsafe { self.get_unchecked_mut() };
        let id = this.id;
        let r = leaf_poll(id, cx);
        match r {
            None => Poll::Pending,
            Some(Res::Ok(_)) => {
                this.done = true;
                let v = Val::new(id);
                if this.role == 1 {
                    w(|w| {
                        w.co.gauge -= 1;
                        // C14: once an error has been returned, the futures still in flight are dropped *unfinished*
                        if w.co.first_err_at.is_some() && FALLIBLE.with(|f| f.get()) {
                            let pos = w.ch[id].item;
                            w.violate(&["C14"], format!("work future for item #{pos} was driven to completion after another work future had returned Err (in-flight futures must be dropped unfinished)"));
                        }
                    });
                }
                leaf_finish(id, Res::Ok(v.id));
                Poll::Ready(Ok(v))
            }
            Some(Res::Err(_)) => {
                this.done = true;
                let v = Val::new(id);
                let vid = v.id;
                w(|w| {
                    if this.role == 1 {
                        w.co.gauge -= 1;
                        w.co.errs.push(vid);
                        w.st.co_errors += 1;
                        if w.co.first_err_at.is_some() && FALLIBLE.with(|f| f.get()) {
                            let pos = w.ch[id].item;
                            w.violate(&["C14"], format!("work future for item #{pos} was driven to completion (Err) after another work future had already returned Err (in-flight futures must be dropped unfinished)"));
                        }
                        if w.co.first_err_at.is_none() {
                            w.co.first_err_at = Some(w.log.len());
                            // a fallible operation breaks now: an abandoned source legitimately wakes nobody
                            if FALLIBLE.with(|f| f.get()) && w.ch[0].kind == Kind::LeafStr {
                                w.ch[0].exempt = true;
                            }
                        }
                    }
                });
                leaf_finish(id, Res::Err(vid));
                Poll::Ready(Err(v))
            }
            Some(_) => {
                leaf_finish(id, Res::Pend);
                Poll::Pending
            }
        }
    }
}
impl Drop for WFut {
    fn drop(&mut self) {
        let (id, role, done) = (self.id, self.role, self.done);
        w(|w| {
            w.ch[id].dropped += 1;
            w.ev(Ev::DropChild(id));
            if !done && role == 1 {
                w.co.gauge -= 1;
            }
        });
    }
}
thread_local! { static FALLIBLE: std::cell::Cell<bool> = std::cell::Cell::new(false); }

/// the scripted source, numbering its items
struct Numbered {
    inner: SStr,
    next: u64,
    len: usize,
    hint: u8,
}
impl Stream for Numbered {
    type Item = It;
    fn poll_next(self: Pin<&mut Self>, cx: &mut Context<'_>) -> Poll<Option<It>> {
        let this = unsafe { self.get_unchecked_mut() };
        let r = unsafe { Pin::new_unchecked(&mut this.inner) }.poll_next(cx);
        match r {
            Poll::Pending => Poll::Pending,
            Poll::Ready(None) => Poll::Ready(None),
            Poll::Ready(Some(val)) => {
                let pos = this.next;
                this.next += 1;
                let take = p(|p| p.eff_take);
                w(|w| {
                    // C15: take(n) takes exactly the first min(n, len) items out of the source — an item that is
                    // pulled and then thrown away is lost to whoever owns the source
                    if let Some(t) = take {
                        if pos as usize >= t {
                            w.violate(&["C15"], format!("source item #{pos} was taken out of the source although the pipeline is limited by take({t})"));
                        }
                    }
                    if w.co.first_err_at.is_some() && FALLIBLE.with(|f| f.get()) {
                        w.co.src_items_after_err += 1;
                    }
                    // after its take-th item the source is abandoned
                    if let Some(t) = take {
                        if this.next as usize >= t {
                            w.ch[0].exempt = true;
                        }
                    }
                });
                Poll::Ready(Some(It { pos, val, idx: [0; 3], nidx: 0, maps: 0 }))
            }
        }
    }
    /// any hint with lower <= remaining <= upper is legal for a stream; adapters and collect() consult it
    fn size_hint(&self) -> (usize, Option<usize>) {
        let rem = self.len.saturating_sub(self.next as usize);
        match self.hint {
            1 => (rem, Some(rem)),
            2 => (rem / 2, Some(rem + 5)),
            3 => (0, Some(usize::MAX)),
            _ => (0, None),
        }
    }
}

fn map_fut(it: It, stage: usize) -> impl Future<Output = It> {
    let f = WFut::new(2, it.pos, stage);
    async move {
        let r = f.await;
        drop(r);
        let mut it = it;
        it.maps += 1;
        it
    }
}

pub enum CoRes {
    Unit,
    Try(Result<(), Val>),
    Vec(Vec<It>),
    RVec(Result<Vec<It>, Val>),
}
type BF = Pin<Box<dyn Future<Output = CoRes>>>;

fn terminal<S>(s: S, term: u8) -> BF
where
    S: ConcurrentStream<Item = It> + 'static,
{
    match term {
        0 => Box::pin(async move {
            s.for_each(|it: It| {
                let f = WFut::new(1, it.pos, 0);
                async move {
                    let r = f.await;
                    drop(r);
                    drop(it);
                }
            })
            .await;
            CoRes::Unit
        }),
        1 => Box::pin(async move {
            CoRes::Try(
                s.try_for_each(|it: It| {
                    let f = WFut::new(1, it.pos, 0);
                    async move {
                        let r = f.await;
                        drop(it);
                        match r {
                            Ok(v) => {
                                drop(v);
                                Ok(())
                            }
                            Err(e) => Err(e),
                        }
                    }
                })
                .await,
            )
        }),
        2 => Box::pin(async move {
            CoRes::Vec(
                s.map(|it: It| {
                    let f = WFut::new(1, it.pos, 0);
                    async move {
                        let r = f.await;
                        drop(r);
                        it
                    }
                })
                .collect::<Vec<It>>()
                .await,
            )
        }),
        3 => Box::pin(async move {
            CoRes::RVec(
                s.map(|it: It| {
                    let f = WFut::new(1, it.pos, 0);
                    async move {
                        match f.await {
                            Ok(v) => {
                                drop(v);
                                Ok(it)
                            }
                            Err(e) => {
                                drop(it);
                                Err(e)
                            }
                        }
                    }
                })
                .collect::<Result<Vec<It>, Val>>()
                .await,
            )
        }),
        _ => Box::pin(async move { CoRes::Vec(s.collect::<Vec<It>>().await) }),
    }
}

// NOTE: the inner expression is evaluated first, so parameters are drawn in source-to-terminal order
macro_rules! stack {
    ($s:expr;) => { $s };
    ($s:expr; map $($r:ident)*) => { stack!({ let inner = $s; let sid = next_stage(true); inner.map(move |it: It| map_fut(it, sid)) }; $($r)*) };
    ($s:expr; enumerate $($r:ident)*) => { stack!({ let inner = $s; let sid = next_stage(false); inner.enumerate().map(move |(i, it): (usize, It)| std::future::ready(it.with_idx(i, sid))) }; $($r)*) };
    ($s:expr; take $($r:ident)*) => { stack!({ let inner = $s; let n = next_take(); inner.take(n) }; $($r)*) };
    ($s:expr; limit $($r:ident)*) => { stack!({ let inner = $s; let l = next_limit(); inner.limit(l) }; $($r)*) };
}

macro_rules! stacks {
    ($src:ident, $term:ident, $id:ident; $( $n:literal => [$($ops:ident)*] ),* $(,)?) => {
        match $id {
            $( $n => terminal(stack!($src; $($ops)*), $term), )*
            _ => unreachable!("stack id"),
        }
    };
}

pub const STACKS: [&str; 29] = [
    "", "limit", "map", "enumerate", "take", "limit map", "map limit", "enumerate map", "map enumerate", "take map", "map take", "take enumerate",
    "enumerate take", "limit take", "take limit", "take take", "limit limit", "map map", "enumerate enumerate", "enumerate limit take",
    "take enumerate map", "map take limit", "limit map take", "take map enumerate", "enumerate take map", "map enumerate take", "take take map",
    "limit enumerate map", "map map take",
];

fn build_full<S: ConcurrentStream<Item = It> + 'static>(src: S, id: usize, term: u8) -> BF {
    stacks!(src, term, id;
        0 => [], 1 => [limit], 2 => [map], 3 => [enumerate], 4 => [take], 5 => [limit map], 6 => [map limit], 7 => [enumerate map],
        8 => [map enumerate], 9 => [take map], 10 => [map take], 11 => [take enumerate], 12 => [enumerate take], 13 => [limit take],
        14 => [take limit], 15 => [take take], 16 => [limit limit], 17 => [map map], 18 => [enumerate enumerate], 19 => [enumerate limit take],
        20 => [take enumerate map], 21 => [map take limit], 22 => [limit map take], 23 => [take map enumerate], 24 => [enumerate take map],
        25 => [map enumerate take], 26 => [take take map], 27 => [limit enumerate map], 28 => [map map take])
}
/// the Vec source gets a subset of the stacks (compile time)
pub const VEC_STACKS: [usize; 8] = [0, 1, 2, 4, 6, 10, 19, 20];
fn build_vec<S: ConcurrentStream<Item = It> + 'static>(src: S, id: usize, term: u8) -> BF {
    stacks!(src, term, id;
        0 => [], 1 => [limit], 2 => [map], 4 => [take], 6 => [map limit], 10 => [map take], 19 => [enumerate limit take], 20 => [take enumerate map])
}

// ------------------------------------------------------------------------------------------------

pub fn run(prop: &str, thorough: bool, case_seed: u64, sub: u64) -> ExecOut {
    run_fault(prop, thorough, case_seed, sub, None)
}

/// `cancel`: Some(k) = drop the operation after exactly k polls (systematic sweep); None = as generated
pub fn run_fault(prop: &str, thorough: bool, case_seed: u64, sub: u64, cancel: Option<usize>) -> ExecOut {
    reset(Src::Rng(case_seed), true);
    SMALLC.with(|s| s.set(None));
    run_inner(prop, thorough, case_seed, sub, cancel)
}

/// one pipeline execution of the small scope; the caller has installed the decision source (`Src::Script`)
pub fn run_small(prop: &str, sc: SmallC) -> ExecOut {
    SMALLC.with(|s| s.set(Some(sc)));
    let o = run_inner(prop, false, 0, 0, Some(usize::MAX));
    SMALLC.with(|s| s.set(None));
    o
}

fn run_inner(prop: &str, thorough: bool, case_seed: u64, sub: u64, cancel: Option<usize>) -> ExecOut {
    let sm = SMALLC.with(|s| s.get());
    let _ = sub;
    let c02 = prop == "C02";
    let (polls0, pend0) = w(|w| (w.st.root_polls, w.st.child_pending));
    // case parameters
    let params = w(|w| {
        if let Some(sc) = sm {
            w.midfire_pct = 0;
            w.small_mode = true;
            w.record_decisions = true;
            let len = w.below(sc.max_len + 1);
            let fallible = matches!(sc.term, 1 | 3);
            // limits: 1, 2 or none; takes: 0, 1, 2 or more than there is (only those the stack uses matter: the unused
            // ones are fixed, see below)
            let st = STACKS[sc.stack];
            let nl = st.matches("limit").count().min(3);
            let nt = st.matches("take").count().min(3);
            let mut limits: Vec<usize> = (0..nl).map(|_| [1usize, 2, 0][w.below(3)]).collect();
            let mut takes: Vec<usize> = (0..nt).map(|_| [0usize, 1, 2, 100][w.below(4)]).collect();
            limits.resize(3, 0);
            takes.resize(3, 100);
            let has_map = st.contains("map") || matches!(sc.term, 2 | 3);
            let tcodes: Vec<u8> = (0..len).map(|_| w.below(3) as u8 + if fallible { 4 * w.below(2) as u8 } else { 0 }).collect();
            let mcodes: Vec<u8> = (0..len).map(|_| if has_map { w.below(2) as u8 } else { 0 }).collect();
            return Params { seed: 0, len, limits, takes, err_pct: 0, never_pct: 0, panic_pct: 0, stack: sc.stack, term: sc.term, src_vec: sc.src_vec, hint: 1, small: Some((tcodes, mcodes)), ..Default::default() };
        }
        w.midfire_pct = 20;
        let term: u8 = match prop {
            "C13" => [0, 0, 0, 1][w.below(4)],
            "C14" => [1, 3][w.below(2)],
            "C15" => [0, 1, 2, 2, 4][w.below(5)],
            _ => w.below(5) as u8,
        };
        let src_vec = w.below(5) == 0;
        let hint = [0u8, 0, 1, 1, 2, 2, 3][w.below(7)];
        let stack = if src_vec { VEC_STACKS[w.below(VEC_STACKS.len())] } else { w.below(STACKS.len()) };
        let maxlen = if thorough { 12 } else { 8 };
        let len = w.below(maxlen + 1);
        // (a huge limit is a legal limit: nothing may be sized by it)
        let limits: Vec<usize> = (0..3).map(|_| if w.chance(4) { [usize::MAX, usize::MAX / 2, usize::MAX / 8][w.below(3)] } else { [0, 1, 1, 2, 2, 3, 4][w.below(7)] }).collect();
        let takes: Vec<usize> = (0..3).map(|_| [0, 0, 1, 2, 3, 5, 9, 100][w.below(8)]).collect();
        let fallible = matches!(term, 1 | 3);
        let err_pct = if fallible { [0, 10, 25, 50, 100][w.below(5)] } else { 0 };
        let never_pct = if w.below(8) == 0 { 8 } else { 0 };
        let panic_pct = if c02 && w.below(3) == 0 { 6 } else { 0 };
        Params { seed: case_seed, len, limits, takes, err_pct, never_pct, panic_pct, stack, term, src_vec, hint, ..Default::default() }
    });
    let fallible = matches!(params.term, 1 | 3);
    FALLIBLE.with(|f| f.set(fallible));
    P.with(|x| *x.borrow_mut() = params.clone());
    // child 0 = the source (scripted stream, or a stand-in producer for the Vec source)
    let src_script: Vec<Step> = w(|w| {
        let mut s = vec![];
        if sm.is_some() {
            if !params.src_vec {
                for _ in 0..params.len {
                    match w.below(3) {
                        1 => s.push(Step::PendSelf),
                        2 => s.push(Step::PendLater),
                        _ => {}
                    }
                    s.push(Step::Item);
                }
                if w.below(2) == 1 {
                    s.push(Step::PendLater);
                }
            }
            s.push(Step::End);
            return s;
        }
        for _ in 0..params.len {
            for _ in 0..w.below(3) {
                s.push(if w.below(2) == 0 { Step::PendSelf } else { Step::PendLater });
            }
            s.push(Step::Item);
        }
        for _ in 0..w.below(2) {
            s.push(Step::PendLater);
        }
        if c02 && w.below(10) == 0 {
            let at = w.below(s.len() + 1);
            s.insert(at, Step::Panic);
        }
        if w.below(16) == 0 {
            for _ in 0..48 {
                s.push(Step::PendNever);
            }
        }
        s.push(Step::End);
        s
    });
    // a non-fused source: it would yield further items if it were polled again after `None` (it must not be)
    let src_resumable = sm.is_none() && !params.src_vec && w(|w| w.chance(15));
    let src_script: Vec<Step> = if src_resumable {
        let mut s = src_script;
        let extra = 1 + w(|w| w.below(2));
        for _ in 0..extra {
            s.push(Step::Item);
        }
        s.push(Step::End);
        s
    } else {
        src_script
    };
    let src_never = src_script.contains(&Step::PendNever);
    w(|w| {
        let mut c = Child::leaf(Kind::LeafStr, if params.src_vec { vec![] } else { src_script.clone() });
        c.resumable = src_resumable;
        if params.src_vec {
            c.created = false;
            c.never = false;
        } else if c.never {
            w.st.never_children += 1;
        }
        w.ch.push(c);
        w.root = None;
        w.phase = Phase::Constructing;
    });
    let built = std::panic::catch_unwind(std::panic::AssertUnwindSafe(|| {
        if params.src_vec {
            let items: Vec<It> = (0..params.len as u64).map(|pos| It { pos, val: Val::new(0), idx: [0; 3], nidx: 0, maps: 0 }).collect();
            build_vec(items.into_co_stream(), params.stack, params.term)
        } else {
            let src = Numbered { inner: SStr::new(0), next: 0, len: params.len, hint: params.hint };
            build_full(src.co(), params.stack, params.term)
        }
    }));
    let pp = p(|p| p.clone());
    let uses_limit = matches!(params.term, 0 | 1);
    w(|w| {
        w.phase = Phase::Idle;
        w.co.limit = pp.eff_limit.unwrap_or(usize::MAX);
        w.co.limit_applies = uses_limit && pp.eff_limit.is_some();
        if pp.eff_take == Some(0) && !params.src_vec {
            w.ch[0].exempt = true;
        }
    });
    let term_name = ["for_each", "try_for_each", "map+collect<Vec>", "map+collect<Result<Vec>>", "collect<Vec>"][params.term as usize];
    let mut out = ExecOut {
        desc: format!(
            "source={} size_hint={} len={} stack=[{}] terminal={} limits={:?} takes={:?} err_pct={} source_script={:?}",
            if params.src_vec { "Vec::into_co_stream" } else { "stream.co()" },
            if params.src_vec { "n/a" } else { ["(0,None)", "exact", "(rem/2,Some(rem+5))", "(0,Some(usize::MAX))"][params.hint as usize] },
            params.len,
            STACKS[params.stack],
            term_name,
            params.limits,
            params.takes,
            params.err_pct,
            src_script.iter().take(14).collect::<Vec<_>>()
        ),
        key: format!("co/{}/{}/{}", if params.src_vec { "vec" } else { "stream" }, STACKS[params.stack].replace(' ', "."), term_name),
        ..Default::default()
    };
    let mut fut: Option<BF> = match built {
        Ok(f) => Some(f),
        Err(pn) => {
            let m = panic_msg(&pn);
            w(|w| w.violate(&["C13"], format!("constructing the pipeline panicked: {m}")));
            None
        }
    };
    // (always draw, so that the schedule that follows does not depend on whether a sweep overrides the point)
    let drawn = if sm.is_some() { None } else { w(|w| if w.chance(if c02 { 40 } else { 15 }) { Some(w.below(9)) } else { None }) };
    let cancel_at = match cancel {
        Some(k) if k == usize::MAX => None,
        Some(k) => Some(k),
        None => drawn,
    };
    let mut result: Option<CoRes> = None;
    let mut polls = 0usize;
    let mut steps = 0usize;
    let mut next_waker_id = 0usize;
    let mut prev_waker: Option<(usize, Waker)> = None;
    let mut cancelled = false;
    let mut spurious_left = if sm.is_some() { 1 } else { 2 };
    let mut stale_left = 1usize;
    while fut.is_some() {
        steps += 1;
        PROGRESS.fetch_add(1, std::sync::atomic::Ordering::Relaxed);
        if steps > engine_a::STEP_CAP {
            out.inconclusive = Some("harness step budget exceeded".into());
            break;
        }
        let rl = w(|w| w.root_last);
        if matches!(rl, RootLast::Final | RootLast::Panicked) {
            break;
        }
        if Some(polls) == cancel_at {
            cancelled = true;
            w(|w| w.st.cancels += 1);
            break;
        }
        let (runnable, outstanding, nwakers) = w(|w| {
            let runnable = w.root_last == RootLast::NotPolled || (w.root_last == RootLast::Pending && w.parent_woken);
            let o: Vec<Cid> = w.ch.iter().enumerate().filter(|(_, c)| c.later_outstanding).map(|(i, _)| i).collect();
            let n: usize = w.ch.iter().map(|c| c.wakers.len()).sum();
            (runnable, o, n)
        });
        let mut opts: Vec<u8> = vec![];
        if sm.is_some() {
            // small scope: every applicable action once; one stale fire and one spurious poll per execution at most
            if runnable {
                opts.push(0);
            }
            if !outstanding.is_empty() {
                opts.push(1);
            }
            if nwakers > 0 && stale_left > 0 && outstanding.is_empty() && !runnable {
                opts.push(2);
            }
            if spurious_left > 0 && !runnable && rl != RootLast::NotPolled {
                opts.push(3);
            }
            // (nothing applicable but the optional extras: also allow to stop here, i.e. treat them as optional)
            if !opts.is_empty() && opts.iter().all(|o| *o >= 2) {
                opts.push(9);
            }
        } else {
            if runnable {
                opts.extend([0, 0]);
            }
            if !outstanding.is_empty() {
                opts.extend([1, 1]);
            }
            if nwakers > 0 && w(|w| w.chance(10)) {
                opts.push(2);
            }
            if spurious_left > 0 && !runnable && rl != RootLast::NotPolled && w(|w| w.chance(8)) {
                opts.push(3);
            }
        }
        if opts.is_empty() {
            break;
        }
        match opts[w(|w| w.below(opts.len()))] {
            9 => break,
            o @ (0 | 3) => {
                if o == 3 {
                    spurious_left -= 1;
                    w(|w| w.st.spurious_polls += 1);
                }
                polls += 1;
                let reuse = sm.is_none() && prev_waker.is_some() && w(|w| w.chance(10));
                let (wid, waker) = if reuse {
                    prev_waker.clone().unwrap()
                } else {
                    next_waker_id += 1;
                    (next_waker_id, Waker::from(Arc::new(ParentWaker(next_waker_id))))
                };
                w(|w| {
                    w.root_polls += 1;
                    w.st.root_polls += 1;
                    w.parent_cur = wid;
                    w.parent_woken = false;
                    w.phase = Phase::Polling;
                    w.injected_seen = false;
                    let n = w.root_polls;
                    w.ev(Ev::ExecPoll { n, waker: wid, spurious: o == 3 });
                });
                let mut cx = Context::from_waker(&waker);
                let r = std::panic::catch_unwind(std::panic::AssertUnwindSafe(|| fut.as_mut().unwrap().as_mut().poll(&mut cx)));
                prev_waker = Some((wid, waker));
                match r {
                    Ok(Poll::Ready(res)) => {
                        result = Some(res);
                        w(|w| {
                            w.phase = Phase::Idle;
                            w.poll_stack.clear();
                            w.root_last = RootLast::Final;
                            w.ev(Ev::ExecRet(Res::End));
                        });
                    }
                    Ok(Poll::Pending) => {
                        w(|w| {
                            w.phase = Phase::Idle;
                            w.poll_stack.clear();
                            w.root_last = RootLast::Pending;
                            w.st.root_pending += 1;
                            w.ev(Ev::ExecRet(Res::Pend));
                            model::i1_check(w, "after poll");
                        });
                    }
                    Err(pn) => {
                        let inj = pn.is::<Injected>();
                        let m = panic_msg(&pn);
                        w(|w| {
                            w.phase = Phase::Idle;
                            w.poll_stack.clear();
                            w.root_last = RootLast::Panicked;
                            w.ev(Ev::ExecRet(Res::Panicked));
                            if !inj {
                                // a panic is not the promised result of whichever terminal operation was running
                                let tp: &'static str = match params.term {
                                    0 => "C13",
                                    1 | 3 => "C14",
                                    _ => "C15",
                                };
                                w.violate(&[tp], format!("polling the operation panicked (not an injected panic): {m}"));
                            }
                        });
                    }
                }
            }
            1 => {
                let c = outstanding[w(|w| w.below(outstanding.len()))];
                let (i, bv) = w(|w| (w.ch[c].wakers.len() - 1, sm.is_none() && w.below(4) == 0));
                fire(c, i, bv, FireCtx::Between);
                w(|w| model::i1_check(w, "after fire"));
            }
            _ => {
                let (c, i, bv) = w(|w| {
                    let with: Vec<Cid> = w.ch.iter().enumerate().filter(|(_, c)| !c.wakers.is_empty()).map(|(i, _)| i).collect();
                    let c = with[w.below(with.len())];
                    let k = w.ch[c].wakers.len();
                    (c, w.below(k), sm.is_none() && w.below(4) == 0)
                });
                stale_left = stale_left.saturating_sub(1);
                fire(c, i, bv, FireCtx::Between);
                w(|w| model::i1_check(w, "after stale fire"));
            }
        }
    }
    let rl = w(|w| w.root_last);
    if !cancelled && out.inconclusive.is_none() && rl == RootLast::Pending {
        w(|w| model::i6_check(w));
        // C14: "whenever some closure (or item) future has resolved to Err, the result is an Err" — also when
        // siblings that are still in flight never complete: a wake-only executor has nothing left to do here
        w(|w| {
            if fallible && w.co.first_err_at.is_some() && !w.parent_woken {
                w.violate(&["C14"], "a work future returned Err but the operation is still Pending with no wake-up outstanding (it waits for in-flight futures instead of cancelling them)".into());
            }
        });
    }
    // ---- oracles on the outcome --------------------------------------------------------------------
    let completed = result.is_some();
    let n_expected = params.len.min(pp.eff_take.unwrap_or(usize::MAX));
    let expected: Vec<u64> = (0..n_expected as u64).collect();
    let mut received: Vec<Val> = vec![];
    w(|w| {
        let co = w.co.clone();
        // every closure at most once per item, at every stage (always — also when cancelled)
        let mut per: BTreeMap<(u8, u64), usize> = BTreeMap::new();
        for (role, key, _) in &co.created {
            *per.entry((*role, *key)).or_default() += 1;
        }
        for ((role, key), n) in &per {
            if *n != 1 {
                let (pos, stage) = (key / 100, key % 100);
                let prop: &'static str = if *role == 1 && params.term <= 1 { "C13" } else { "C15" };
                w.violate(&[prop], format!("{} closure (stage {stage}) invoked {n} times for source item #{pos}", if *role == 1 { "terminal" } else { "map" }));
            }
        }
        // nothing beyond the first min(take, len) items is ever processed
        for (role, key, _) in &co.created {
            let pos = key / 100;
            if pos as usize >= n_expected {
                w.violate(&["C15"], format!("item #{pos} was processed (role {role}) although only the first {n_expected} items may be (take = {:?}, len = {})", pp.eff_take, params.len));
                break;
            }
        }
        if fallible && co.src_items_after_err > 0 {
            w.violate(&["C14"], format!("{} item(s) were taken from the source after a work future had returned Err", co.src_items_after_err));
        }
    });
    if completed {
        let co = w(|w| w.co.clone());
        let processed = |role: u8, stage: u64| -> Vec<u64> {
            let mut v: Vec<u64> = co.created.iter().filter(|c| c.0 == role && c.1 % 100 == stage).map(|c| c.1 / 100).collect();
            v.sort();
            v
        };
        let term_done: Vec<u64> = processed(1, 0);
        let has_term_closure = params.term != 4;
        let mut check_all_processed = |what: &str, prop: &'static str| {
            if has_term_closure && term_done != expected {
                w(|w| w.violate(&[prop], format!("{what}: terminal closure processed items {term_done:?}, expected exactly {expected:?}")));
            }
            for st in &pp.map_stages {
                let got = processed(2, *st as u64);
                if got != expected {
                    w(|w| w.violate(&["C15"], format!("{what}: map closure of stage {st} ran for items {got:?}, expected exactly {expected:?}")));
                }
            }
        };
        let check_items = |items: &Vec<It>, prop: &'static str| {
            let mut pos: Vec<u64> = items.iter().map(|i| i.pos).collect();
            pos.sort();
            if pos != expected {
                w(|w| w.violate(&[prop], format!("collect returned items {pos:?}, expected exactly the multiset {expected:?}")));
            }
            for it in items {
                it.val.check_live("collected item");
                if it.maps as usize != pp.map_stages.len() {
                    let (m, p0) = (it.maps, it.pos);
                    w(|w| w.violate(&["C15"], format!("collected item #{p0} went through {m} map closures, the pipeline has {}", pp.map_stages.len())));
                }
            }
        };
        match result.take().unwrap() {
            CoRes::Unit => {
                check_all_processed("for_each resolved", "C13");
                // structured: resolves only after every closure future completed
                w(|w| {
                    let unfinished: Vec<Cid> = co.created.iter().filter(|c| c.0 == 1 && w.ch[c.2].last != Last::Done).map(|c| c.2).collect();
                    if !unfinished.is_empty() {
                        w.violate(&["C13"], format!("for_each resolved while closure futures {unfinished:?} had not completed"));
                    }
                });
            }
            CoRes::Try(Ok(())) => {
                if !co.errs.is_empty() {
                    w(|w| w.violate(&["C14"], format!("try_for_each returned Ok although {} closure future(s) returned Err", co.errs.len())));
                }
                check_all_processed("try_for_each returned Ok", "C14");
                w(|w| {
                    let unfinished: Vec<Cid> = co.created.iter().filter(|c| c.0 == 1 && w.ch[c.2].last != Last::Done).map(|c| c.2).collect();
                    if !unfinished.is_empty() {
                        w.violate(&["C14"], format!("try_for_each returned Ok while closure futures {unfinished:?} had not completed"));
                    }
                });
            }
            CoRes::Try(Err(e)) => {
                let id = e.check_live("try_for_each error");
                if !co.errs.contains(&id) {
                    w(|w| w.violate(&["C14"], format!("try_for_each returned error v{id}, which no closure future returned")));
                }
                received.push(e);
            }
            CoRes::Vec(items) => {
                check_items(&items, "C15");
                check_all_processed("collect resolved", "C15");
                drop(items);
            }
            CoRes::RVec(Ok(items)) => {
                if !co.errs.is_empty() {
                    w(|w| w.violate(&["C14"], format!("collect returned Ok although {} item future(s) returned Err", co.errs.len())));
                }
                check_items(&items, "C14");
                check_all_processed("collect::<Result> returned Ok", "C14");
                drop(items);
            }
            CoRes::RVec(Err(e)) => {
                let id = e.check_live("collect error");
                if !co.errs.contains(&id) {
                    w(|w| w.violate(&["C14"], format!("collect returned error v{id}, which no item future returned")));
                }
                received.push(e);
            }
        }
    }
    let _ = src_never;
    engine_a::finish(&mut out, fut.take().map(|f| Box::new(move || drop(f)) as Box<dyn FnOnce()>), received, polls0, pend0, cancelled);
    out
}
