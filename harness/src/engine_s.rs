//! Engine S: SCALE. The other engines draw many short cases; a defect that needs a numeric threshold (a counter
//! narrowed to u8/u16, a cache that spills beyond N entries, a budget that triggers after hundreds of ready children,
//! an offset that drifts after thousands of polls, a capacity computation that goes wrong beyond a large capacity)
//! is out of their reach by construction. Engine S runs few, big, cheap executions: containers of 300..5 000
//! children, streams of up to 70 000 items (past the u16 boundary), groups that see 70 000 inserts, pipelines of
//! 70 000 items. Children are light scripted futures / streams (no event log); the executor is wake-only (a fresh
//! counting waker per poll; wakers of "wake-later" steps go to a queue that is fired only when the task is idle),
//! so a lost wake-up shows as "idle with nothing to fire". Oracles are whole-run: positions, per-input order,
//! exactly-once, counts, fairness windows, gauge <= limit, poll counts, produced = dropped.
//! Self-contained: no Tap nodes, no World.

use crate::engine_a::ExecOut;
use crate::world::Violation;
use futures_concurrency::prelude::*;
use futures_core::Stream;
use std::cell::{Cell, RefCell};
use std::future::Future;
use std::pin::Pin;
use std::rc::Rc;
use std::sync::atomic::{AtomicBool, Ordering};
use std::sync::Arc;
use std::task::{Context, Poll, Wake, Waker};

thread_local! {
    static MADE: Cell<u64> = Cell::new(0);
    static DROPPED: Cell<u64> = Cell::new(0);
    static KIDS_MADE: Cell<u64> = Cell::new(0);
    static KIDS_DROPPED: Cell<u64> = Cell::new(0);
    static LATER: RefCell<Vec<Waker>> = RefCell::new(Vec::new());
    static POLLS: RefCell<Vec<u32>> = RefCell::new(Vec::new());
    static ROOT_POLLS: Cell<u64> = Cell::new(0);
    static FIRED: Cell<u64> = Cell::new(0);
    static STALE: RefCell<Vec<Waker>> = RefCell::new(Vec::new());
    static PENDS: Cell<u64> = Cell::new(0);
    static STALE_FIRED: Cell<u64> = Cell::new(0);
    /// ids of scale streams that returned None since the last look (group oracle: forgotten in that very poll)
    static ENDED_NEW: RefCell<Vec<u32>> = RefCell::new(Vec::new());
}

fn xs(s: &mut u64) -> u64 {
    *s ^= *s << 13;
    *s ^= *s >> 7;
    *s ^= *s << 17;
    *s
}

/// tracked value: which child produced it and its sequence number within that child
#[derive(Debug)]
pub struct V {
    src: u32,
    seq: u32,
}
impl V {
    fn new(src: u32, seq: u32) -> V {
        MADE.with(|m| m.set(m.get() + 1));
        V { src, seq }
    }
}
impl Drop for V {
    fn drop(&mut self) {
        DROPPED.with(|m| m.set(m.get() + 1));
    }
}
impl std::fmt::Display for V {
    fn fmt(&self, f: &mut std::fmt::Formatter<'_>) -> std::fmt::Result {
        write!(f, "V({},{})", self.src, self.seq)
    }
}
impl std::error::Error for V {}

struct Kid;
impl Kid {
    fn new() -> Kid {
        KIDS_MADE.with(|m| m.set(m.get() + 1));
        Kid
    }
}
impl Drop for Kid {
    fn drop(&mut self) {
        KIDS_DROPPED.with(|m| m.set(m.get() + 1));
    }
}

/// one Pending step: mode 0 = wake yourself and return Pending, mode 1 = park the waker in the queue (wake later)
fn pend_step(cx: &mut Context<'_>, later: bool) {
    // keep a sample of the wakers handed out (every 61st and the most recent ones): they are invoked again, stale,
    // after the combinator finished and after it was dropped
    let k = PENDS.with(|p| p.replace(p.get() + 1));
    STALE.with(|s| {
        let mut s = s.borrow_mut();
        if k % 61 == 0 && s.len() < 512 {
            s.push(cx.waker().clone());
        } else if s.len() >= 64 {
            let i = 32 + (k as usize % 32);
            s[i] = cx.waker().clone();
        } else {
            s.push(cx.waker().clone());
        }
    });
    if later {
        LATER.with(|q| q.borrow_mut().push(cx.waker().clone()));
    } else {
        cx.waker().wake_by_ref();
    }
}
fn count_poll(id: u32) {
    POLLS.with(|p| {
        let mut p = p.borrow_mut();
        if (id as usize) < p.len() {
            p[id as usize] += 1;
        }
    });
}

/// future: `pend` Pending steps, then Ok(V(id,0)) / Err(V(id,0)); `never` = Pending forever without waking
struct SF {
    id: u32,
    pend: u32,
    later: bool,
    ok: bool,
    never: bool,
    done: bool,
    _k: Kid,
}
impl SF {
    fn new(id: u32, pend: u32, later: bool, ok: bool) -> SF {
        SF { id, pend, later, ok, never: false, done: false, _k: Kid::new() }
    }
}
impl Future for SF {
    type Output = Result<V, V>;
    fn poll(mut self: Pin<&mut Self>, cx: &mut Context<'_>) -> Poll<Self::Output> {
        count_poll(self.id);
        assert!(!self.done, "scale child {} polled after completion", self.id);
        if self.never {
            return Poll::Pending;
        }
        if self.pend > 0 {
            self.pend -= 1;
            pend_step(cx, self.later);
            return Poll::Pending;
        }
        self.done = true;
        Poll::Ready(if self.ok { Ok(V::new(self.id, 0)) } else { Err(V::new(self.id, 0)) })
    }
}
/// infallible view of SF
struct SFI(SF);
impl Future for SFI {
    type Output = V;
    fn poll(self: Pin<&mut Self>, cx: &mut Context<'_>) -> Poll<V> {
        let this = unsafe { self.get_unchecked_mut() };
        match Pin::new(&mut this.0).poll(cx) {
            Poll::Ready(Ok(v)) | Poll::Ready(Err(v)) => Poll::Ready(v),
            Poll::Pending => Poll::Pending,
        }
    }
}
impl Unpin for SF {}

/// stream: `items` items; before item k there is a Pending step iff k % every == phase (every == 0: never pends)
struct SS {
    id: u32,
    items: u32,
    next: u32,
    every: u32,
    later: bool,
    pended: bool,
    ended: bool,
    _k: Kid,
}
impl SS {
    fn new(id: u32, items: u32, every: u32, later: bool) -> SS {
        SS { id, items, next: 0, every, later, pended: false, ended: false, _k: Kid::new() }
    }
}
impl Stream for SS {
    type Item = V;
    fn poll_next(mut self: Pin<&mut Self>, cx: &mut Context<'_>) -> Poll<Option<V>> {
        count_poll(self.id);
        assert!(!self.ended, "scale stream {} polled after it returned None", self.id);
        if self.every > 0 && !self.pended && (self.next + self.id) % self.every == 0 {
            self.pended = true;
            pend_step(cx, self.later);
            return Poll::Pending;
        }
        self.pended = false;
        if self.next >= self.items {
            self.ended = true;
            ENDED_NEW.with(|e| e.borrow_mut().push(self.id));
            return Poll::Ready(None);
        }
        self.next += 1;
        Poll::Ready(Some(V::new(self.id, self.next - 1)))
    }
}

struct Flag(AtomicBool);
impl Wake for Flag {
    fn wake(self: Arc<Self>) {
        self.0.store(true, Ordering::SeqCst);
    }
    fn wake_by_ref(self: &Arc<Self>) {
        self.0.store(true, Ordering::SeqCst);
    }
}

enum Stop {
    Done,
    /// Pending, current waker silent, nothing parked: nobody will ever wake the task
    Stuck,
    Budget,
}

/// wake-only executor: poll with a fresh waker; poll again only if that waker fired; when idle fire the parked
/// wakers (all of them, or one at a time) and continue only if the CURRENT waker was hit
fn drive<T>(mut poll: impl FnMut(&mut Context<'_>) -> Poll<T>, budget: u64, one_at_a_time: bool, mut on: impl FnMut(T) -> bool) -> (Stop, u64) {
    let mut polls = 0u64;
    loop {
        let f = Arc::new(Flag(AtomicBool::new(false)));
        let w = Waker::from(f.clone());
        let mut cx = Context::from_waker(&w);
        polls += 1;
        ROOT_POLLS.with(|p| p.set(p.get() + 1));
        crate::child::PROGRESS.fetch_add(1, Ordering::Relaxed);
        match poll(&mut cx) {
            Poll::Ready(t) => {
                if on(t) {
                    return (Stop::Done, polls);
                }
                continue;
            }
            Poll::Pending => {}
        }
        if polls >= budget {
            return (Stop::Budget, polls);
        }
        loop {
            if f.0.load(Ordering::SeqCst) {
                break;
            }
            let parked: Vec<Waker> = LATER.with(|q| {
                let mut q = q.borrow_mut();
                if one_at_a_time && !q.is_empty() {
                    vec![q.remove(0)]
                } else {
                    std::mem::take(&mut *q)
                }
            });
            if parked.is_empty() {
                return (Stop::Stuck, polls);
            }
            FIRED.with(|f| f.set(f.get() + parked.len() as u64));
            for p in parked {
                p.wake();
            }
        }
    }
}

struct Ctx {
    msgs: Vec<(Vec<&'static str>, String)>,
    inconclusive: Option<String>,
}
impl Ctx {
    fn v(&mut self, props: &[&'static str], m: String) {
        if self.msgs.len() < 8 {
            self.msgs.push((props.to_vec(), m));
        }
    }
    fn stop(&mut self, s: Stop, polls: u64, fam: &'static str, what: &str) -> bool {
        match s {
            Stop::Done => true,
            Stop::Stuck => {
                self.v(&["C01", "C20", fam], format!("{what}: Pending after {polls} polls, the current waker was not invoked and no waker is parked (lost wake-up / child never polled)"));
                false
            }
            Stop::Budget => {
                // every poll of the wake-only executor is preceded by a wake-up, and every wake-up of a correct combinator
                // lets at least one child consume one step of its script; the budget is a multiple (>= 4x) of ALL steps
                self.v(&["C01", fam], format!("{what}: still Pending after {polls} polls, each preceded by a wake-up, although the children have fewer than a quarter as many steps in total (livelock: the combinator keeps waking the task without making progress)"));
                false
            }
        }
    }
}

/// invoke every retained (stale) waker once more
fn fire_stale() {
    let ws: Vec<Waker> = STALE.with(|s| s.borrow().clone());
    STALE_FIRED.with(|f| f.set(f.get() + ws.len() as u64));
    for w in ws {
        w.wake();
    }
    LATER.with(|q| q.borrow_mut().clear());
}

fn reset_counters(nkids: usize) {
    STALE.with(|s| s.borrow_mut().clear());
    ENDED_NEW.with(|e| e.borrow_mut().clear());
    MADE.with(|m| m.set(0));
    DROPPED.with(|m| m.set(0));
    KIDS_MADE.with(|m| m.set(0));
    KIDS_DROPPED.with(|m| m.set(0));
    LATER.with(|q| q.borrow_mut().clear());
    POLLS.with(|p| *p.borrow_mut() = vec![0; nkids]);
}
fn check_drops(cx: &mut Ctx, fam: &'static str, what: &str) {
    let (m, d, km, kd) = (MADE.with(|x| x.get()), DROPPED.with(|x| x.get()), KIDS_MADE.with(|x| x.get()), KIDS_DROPPED.with(|x| x.get()));
    if m != d {
        cx.v(&["C02", fam], format!("{what}: {m} values were produced but {d} were dropped"));
    }
    if km != kd {
        cx.v(&["C02", fam], format!("{what}: {km} children were created but {kd} were dropped once the combinator was gone"));
    }
}

const SIZES: [usize; 7] = [300, 513, 1000, 1025, 4097, 5000, 66_000];
/// a container size; past 65 536 in a quarter of the draws where the workload can afford it
fn pick_size(r: &mut u64, allow_huge: bool) -> usize {
    if allow_huge && xs(r) % 4 == 0 {
        66_000
    } else {
        SIZES[(xs(r) % 6) as usize]
    }
}

#[cfg(feature = "fc-alloc")]
fn big_futures(cx: &mut Ctx, fam: &'static str, r: &mut u64) -> String {
    let n = pick_size(r, true);
    // (beyond 65 536 children only with parked wakers fired together: a handful of polls; one poll per wake-up would
    // cost n polls of O(n) each)
    let huge = n > 10_000;
    let later = huge || xs(r) % 2 == 0;
    let one = !huge && xs(r) % 4 == 0;
    let maxp = 1 + (xs(r) % 3) as u32;
    let what = format!("Vec {fam} of {n} futures (<= {maxp} Pending steps each, {}, fire {})", if later { "wake-later" } else { "self-wake" }, if one { "one at a time" } else { "all at once" });
    reset_counters(n);
    let pends: Vec<u32> = (0..n).map(|i| ((i as u64 * 2654435761 + n as u64) % (maxp as u64 + 1)) as u32).collect();
    let total: u64 = pends.iter().map(|p| *p as u64).sum::<u64>() + n as u64;
    let budget = 4 * total + 100;
    match fam {
        "C04" => {
            let v: Vec<SFI> = (0..n).map(|i| SFI(SF::new(i as u32, pends[i], later, true))).collect();
            let mut f = Box::pin(v.join());
            let mut out: Option<Vec<V>> = None;
            let (s, polls) = drive(|c| f.as_mut().poll(c), budget, one, |o| {
                out = Some(o);
                true
            });
            if cx.stop(s, polls, "C04", &what) {
                let o = out.take().unwrap();
                if o.len() != n {
                    cx.v(&["C04"], format!("{what}: output has {} entries", o.len()));
                }
                if let Some((i, v)) = o.iter().enumerate().find(|(i, v)| v.src as usize != *i) {
                    cx.v(&["C04"], format!("{what}: output position {i} holds the output of child {}", v.src));
                }
                // selective polling at scale (std): a child is polled once per wake of its own, i.e. pend + 1 times
                if cfg!(feature = "fc-std") {
                    let bad = POLLS.with(|p| p.borrow().iter().enumerate().find(|(i, c)| **c != pends[*i] + 1).map(|(i, c)| (i, *c)));
                    if let Some((i, c)) = bad {
                        cx.v(&["C16"], format!("{what}: child {i} has {} Pending steps, each followed by exactly one wake, but was polled {c} times", pends[i]));
                    }
                }
            }
            drop(f);
        }
        "C05" => {
            let fail = if xs(r) % 2 == 0 { Some((xs(r) % n as u64) as usize) } else { None };
            // the failing child is the slowest, so that every sibling has parked its Ok value by then
            let v: Vec<SF> = (0..n).map(|i| SF::new(i as u32, if Some(i) == fail { maxp + 1 } else { pends[i] }, later, Some(i) != fail)).collect();
            let mut f = Box::pin(v.try_join());
            let mut out: Option<Result<Vec<V>, V>> = None;
            let (s, polls) = drive(|c| f.as_mut().poll(c), budget + 8, one, |o| {
                out = Some(o);
                true
            });
            if cx.stop(s, polls, "C05", &what) {
                match (out.take().unwrap(), fail) {
                    (Ok(o), None) => {
                        if o.len() != n || o.iter().enumerate().any(|(i, v)| v.src as usize != i) {
                            cx.v(&["C05"], format!("{what}: Ok output is not positional / has {} entries", o.len()));
                        }
                    }
                    (Err(e), Some(k)) => {
                        if e.src as usize != k {
                            cx.v(&["C05"], format!("{what}: child {k} failed but the error of child {} was returned", e.src));
                        }
                    }
                    (Ok(_), Some(k)) => cx.v(&["C05"], format!("{what}: child {k} failed but try_join returned Ok")),
                    (Err(e), None) => cx.v(&["C05"], format!("{what}: nobody failed but try_join returned Err({e})")),
                }
            }
            drop(f);
        }
        "C07" => {
            let win = if xs(r) % 2 == 0 { Some((xs(r) % n as u64) as usize) } else { None };
            let v: Vec<SF> = (0..n).map(|i| SF::new(i as u32, if Some(i) == win { maxp + 1 } else { pends[i] }, later, Some(i) == win)).collect();
            let mut f = Box::pin(v.race_ok());
            let mut res: Option<(bool, Vec<u32>)> = None;
            let (s, polls) = drive(|c| f.as_mut().poll(c), budget + 8, one, |o| {
                res = Some(match o {
                    Ok(v) => (true, vec![v.src]),
                    Err(agg) => (false, agg.iter().map(|e| e.src).collect()),
                });
                true
            });
            if cx.stop(s, polls, "C07", &what) {
                match (res.take().unwrap(), win) {
                    ((true, v), Some(k)) => {
                        if v[0] as usize != k {
                            cx.v(&["C07"], format!("{what}: child {k} is the only success but the value of child {} was returned", v[0]));
                        }
                    }
                    ((false, errs), None) => {
                        if errs.len() != n || errs.iter().enumerate().any(|(i, e)| *e as usize != i) {
                            cx.v(&["C07"], format!("{what}: aggregate error is not positional / has {} entries", errs.len()));
                        }
                    }
                    ((true, _), None) => cx.v(&["C07"], format!("{what}: every child failed but race_ok returned Ok")),
                    ((false, _), Some(k)) => cx.v(&["C07"], format!("{what}: child {k} succeeds but race_ok returned Err")),
                }
            }
            drop(f);
        }
        _ => {
            // race: exactly one child ever completes, the others stay Pending forever
            let win = (xs(r) % n as u64) as usize;
            let v: Vec<SFI> = (0..n)
                .map(|i| {
                    let mut c = SF::new(i as u32, pends[i], later, true);
                    c.never = i != win;
                    SFI(c)
                })
                .collect();
            let mut f = Box::pin(v.race());
            let mut got: Option<u32> = None;
            let (s, polls) = drive(|c| f.as_mut().poll(c), budget, one, |o| {
                got = Some(o.src);
                true
            });
            if cx.stop(s, polls, "C06", &what) && got != Some(win as u32) {
                cx.v(&["C06"], format!("{what}: only child {win} completes but the output of child {:?} was returned", got));
            }
            drop(f);
        }
    }
    check_drops(cx, if fam == "race" { "C06" } else { fam_prop(fam) }, &what);
    what
}

fn fam_prop(f: &'static str) -> &'static str {
    f
}

/// per-input order + exactly-once over a merged / grouped item sequence
fn check_items(cx: &mut Ctx, prop: &'static str, what: &str, got: &[(u32, u32)], lens: &[u32]) {
    let mut next = vec![0u32; lens.len()];
    for (src, seq) in got {
        let s = *src as usize;
        if s >= lens.len() {
            cx.v(&[prop], format!("{what}: item from unknown input {src}"));
            return;
        }
        if *seq != next[s] {
            cx.v(&[prop], format!("{what}: input {src} delivered item #{seq} where #{} was due (lost, duplicated or reordered)", next[s]));
            return;
        }
        next[s] += 1;
    }
    if let Some((i, (a, b))) = next.iter().zip(lens).enumerate().find(|(_, (a, b))| a != b) {
        cx.v(&[prop], format!("{what}: input {i} has {b} items but {a} were yielded before the end"));
    }
}

#[cfg(feature = "fc-alloc")]
fn big_streams(cx: &mut Ctx, fam: &'static str, r: &mut u64) -> String {
    // either many inputs with few items, or few inputs with very many items (past 65 536 polls / items)
    let wide = xs(r) % 2 == 0;
    // (66 000 inputs only for zip, whose cost per row is linear; merge and chain pay O(n) per item)
    let n = if wide { pick_size(r, fam == "C09") } else { 1 + (xs(r) % 5) as usize };
    let huge = n > 10_000;
    let later = huge || xs(r) % 2 == 0;
    let one = !huge && xs(r) % 4 == 0;
    let tuple = !wide && (n == 3 || n == 5) && xs(r) % 2 == 0 && matches!(fam, "C08" | "C17");
    let every = [0u32, 2, 3, 7][(xs(r) % 4) as usize];
    let base: u32 = if wide { 3 } else { 66_000 + (xs(r) % 5_000) as u32 };
    // (zip ends with its shortest input: no empty inputs there, or a wide zip would be over after its first poll)
    let lens: Vec<u32> = (0..n).map(|i| if wide { if fam == "C09" { 3 + (i as u32 * 7) % 3 } else { (i as u32 * 7 + base) % 5 } } else { base / n as u32 + (i as u32 * 13) % 50 }).collect();
    let what = format!("{} {fam} of {n} streams (", if tuple { "tuple" } else { "Vec" });
    let what = what + &format!("{} items in total, Pending before every {every}-th item, {}, fire {})", lens.iter().map(|l| *l as u64).sum::<u64>(), if later { "wake-later" } else { "self-wake" }, if one { "one at a time" } else { "all at once" });
    reset_counters(n);
    let total: u64 = lens.iter().map(|l| *l as u64 * 2 + 3).sum();
    let budget = 4 * total + 100;
    let v: Vec<SS> = (0..n).map(|i| SS::new(i as u32, lens[i], every, later)).collect();
    let mut got: Vec<(u32, u32)> = vec![];
    match fam {
        "C08" | "C17" => {
            // C17: nobody pends => every input always has an item until it ends
            let v: Vec<SS> = if fam == "C17" { (0..n).map(|i| SS::new(i as u32, lens[i].max(3), 0, false)).collect() } else { v };
            let lens: Vec<u32> = if fam == "C17" { lens.iter().map(|l| (*l).max(3)).collect() } else { lens.clone() };
            let mut m: Pin<Box<dyn Stream<Item = V>>> = if tuple {
                let mut it = v.into_iter();
                let mut nx = || it.next().unwrap();
                if n == 3 {
                    Box::pin((nx(), nx(), nx()).merge())
                } else {
                    Box::pin((nx(), nx(), nx(), nx(), nx()).merge())
                }
            } else {
                Box::pin(v.merge())
            };
            let (s, polls) = drive(|c| m.as_mut().poll_next(c), budget, one, |o| match o {
                Some(v) => {
                    got.push((v.src, v.seq));
                    false
                }
                None => true,
            });
            if cx.stop(s, polls, "C08", &what) {
                check_items(cx, "C08", &what, &got, &lens);
                if fam == "C17" {
                    // while all n inputs are live (i.e. up to the first end), every window of n yields holds each input
                    let minlen = *lens.iter().min().unwrap() as usize;
                    let upto = (minlen * n).min(got.len());
                    let mut last = vec![usize::MAX; n];
                    for (k, (src, _)) in got[..upto].iter().enumerate() {
                        let s = *src as usize;
                        let gap = if last[s] == usize::MAX { k + 1 } else { k - last[s] };
                        if gap > n {
                            cx.v(&["C17"], format!("{what}: input {s} always has an item but was not served for {gap} consecutive yields (yield #{k})"));
                            break;
                        }
                        last[s] = k;
                    }
                }
            }
            drop(m);
        }
        "C09" => {
            let mut z = Box::pin(v.zip());
            let mut rows = 0u32;
            let mut bad: Option<String> = None;
            let (s, polls) = drive(|c| z.as_mut().poll_next(c), budget, one, |o| match o {
                Some(row) => {
                    if bad.is_none() && (row.len() != n || row.iter().enumerate().any(|(i, v)| v.src as usize != i || v.seq != rows)) {
                        bad = Some(format!("row #{rows} is {:?}", row.iter().take(6).map(|v| (v.src, v.seq)).collect::<Vec<_>>()));
                    }
                    rows += 1;
                    false
                }
                None => true,
            });
            if cx.stop(s, polls, "C09", &what) {
                if let Some(b) = bad {
                    cx.v(&["C09"], format!("{what}: {b}"));
                }
                let min = *lens.iter().min().unwrap();
                if rows != min {
                    cx.v(&["C09"], format!("{what}: {rows} rows were yielded, the shortest input has {min} items"));
                }
            }
            drop(z);
        }
        _ => {
            let mut ch = Box::pin(v.chain());
            let (s, polls) = drive(|c| ch.as_mut().poll_next(c), budget, one, |o| match o {
                Some(v) => {
                    got.push((v.src, v.seq));
                    false
                }
                None => true,
            });
            if cx.stop(s, polls, "C10", &what) {
                check_items(cx, "C10", &what, &got, &lens);
                if got.windows(2).any(|w| w[0].0 > w[1].0) {
                    cx.v(&["C10"], format!("{what}: an item of a later input was yielded before an earlier input's item"));
                }
            }
            drop(ch);
        }
    }
    check_drops(cx, if fam == "C17" { "C08" } else { fam }, &what);
    what
}

#[cfg(feature = "fc-alloc")]
fn big_group(cx: &mut Ctx, streams: bool, r: &mut u64) -> String {
    use futures_concurrency::future::FutureGroup;
    use futures_concurrency::stream::StreamGroup;
    let prop: &'static str = if streams { "C12" } else { "C11" };
    // churn: `live` members at a time and `total` inserts over the run (slot reuse all the way), or one big wave
    let wave = xs(r) % 2 == 0;
    let live = if wave { pick_size(r, false) } else { 1 + (xs(r) % 5) as usize };
    // in half of the waves 70 % of the members are removed before the first poll; in half of the histories every
    // member is Pending at least once (so that a whole sweep of the group sees nothing but Pending members)
    let with_removal = wave && xs(r) % 2 == 0;
    let all_pend = xs(r) % 2 == 0;
    // stream groups: in a third of the histories 15 of 16 members are empty streams, so that whole sweeps of the group
    // see members ending (or pending) without a single item
    let mostly_empty = streams && xs(r) % 3 == 0;
    let total: usize = if wave { live + 50 } else { 66_000 + (xs(r) % 6_000) as usize };
    let later = xs(r) % 2 == 0;
    let cap0 = [0usize, 1, 300][(xs(r) % 3) as usize];
    let what = format!("{}::with_capacity({cap0}): {total} inserts, {live} members live at a time{}{}, {}", if streams { "StreamGroup" } else { "FutureGroup" }, if with_removal { ", 70 % removed before the first poll" } else if mostly_empty { ", 15 of 16 members are empty streams" } else { "" }, if all_pend { ", every member pends first" } else { "" }, if later { "wake-later" } else { "self-wake" });
    reset_counters(0);
    let per_item = 2u32;
    let mut got: Vec<(u32, u32)> = vec![];
    let mut removed = vec![false; total];
    let budget = 12 * total as u64 + 1000;
    macro_rules! run_group {
        ($g:expr, $mk:expr, $is_stream:expr) => {{
            let mut g = $g;
            let mut inserted = 0usize;
            let mut finished = 0usize;
            let mut polls = 0u64;
            let mut live_keys = vec![];
            let mut removed_done = !with_removal;
            let mut ended_total = 0usize;
            let mut removed_total = 0usize;
            ENDED_NEW.with(|e| e.borrow_mut().clear());
            'outer: loop {
                while inserted < total && g.len() < live {
                    let id = inserted as u32;
                    let k = g.insert($mk(id));
                    if live_keys.iter().any(|(k2, _)| *k2 == k) {
                        cx.v(&[prop], format!("{what}: insert #{id} returned {k:?}, which belongs to a live member"));
                        break 'outer;
                    }
                    live_keys.push((k, id));
                    if !g.contains_key(k) {
                        cx.v(&[prop], format!("{what}: contains_key is false right after insert #{id}"));
                        break 'outer;
                    }
                    inserted += 1;
                }
                if !removed_done && inserted >= live {
                    // one big removal: the members with the lowest 70 % of the ids go (never polled so far), then the
                    // group is asked for room again and refilled into the vacated slots
                    removed_done = true;
                    let cut = (live * 7 / 10) as u32;
                    for (k, id) in live_keys.iter().filter(|(_, id)| *id < cut) {
                        if !g.remove(*k) {
                            cx.v(&[prop], format!("{what}: remove({k:?}) of live member {id} returned false"));
                            break 'outer;
                        }
                        if g.contains_key(*k) {
                            cx.v(&[prop], format!("{what}: contains_key({k:?}) is true right after remove"));
                            break 'outer;
                        }
                        removed[*id as usize] = true;
                        removed_total += 1;
                        finished += 1;
                    }
                    live_keys.retain(|(_, id)| *id >= cut);
                    g.reserve(10);
                    continue;
                }
                let expect_len = inserted - finished;
                if g.len() != expect_len || g.is_empty() != (expect_len == 0) || g.capacity() < g.len() {
                    cx.v(&[prop], format!("{what}: len() = {}, is_empty() = {}, capacity() = {}, but {expect_len} members are live (after {inserted} inserts)", g.len(), g.is_empty(), g.capacity()));
                    break;
                }
                let mut yielded: Option<u32> = None;
                let mut none = false;
                let mut sv_err: Option<String> = None;
                let mut ended_total_now = ended_total;
                let lk = &live_keys;
                let (s, p) = drive(
                    |c| {
                        let r = Pin::new(&mut g).poll_next(c);
                        // after EVERY poll, Pending ones included: a stream member that returned None in this poll is
                        // dropped and forgotten in this poll
                        if $is_stream && sv_err.is_none() {
                            let newly: Vec<u32> = ENDED_NEW.with(|e| std::mem::take(&mut *e.borrow_mut()));
                            ended_total_now += newly.len();
                            if g.len() != inserted - removed_total - ended_total_now {
                                sv_err = Some(format!("len() = {} right after a poll in which members ended; {} were inserted, {} removed and {} have returned None", g.len(), inserted, removed_total, ended_total_now));
                            }
                            for id in newly.iter().take(64) {
                                if let Some((k, _)) = lk.iter().find(|(_, i)| i == id) {
                                    if g.contains_key(*k) {
                                        sv_err = Some(format!("contains_key({k:?}) is still true right after the poll in which member {id} returned None"));
                                    }
                                }
                            }
                        }
                        r
                    },
                    budget.saturating_sub(polls).max(1),
                    false,
                    |o| {
                        match o {
                            Some(v) => {
                                yielded = Some(v.src);
                                got.push((v.src, v.seq));
                            }
                            None => none = true,
                        }
                        true
                    },
                );
                polls += p;
                ended_total = ended_total_now;
                if let Some(e) = sv_err {
                    cx.v(&[prop], format!("{what}: {e}"));
                    break;
                }
                if !cx.stop(s, polls, prop, &what) {
                    break;
                }
                if $is_stream {
                    // members that ended are forgotten in that very poll: the length tells how many
                    let l = g.len();
                    if l > inserted - finished {
                        cx.v(&[prop], format!("{what}: len() grew to {l} during a poll"));
                        break;
                    }
                    finished = inserted - l;
                    live_keys.retain(|(k, _)| g.contains_key(*k));
                    if live_keys.len() != l {
                        cx.v(&[prop], format!("{what}: {} of the keys handed out are contained, len() = {l}", live_keys.len()));
                        break;
                    }
                } else if let Some(id) = yielded {
                    finished += 1;
                    let before = live_keys.len();
                    live_keys.retain(|(_, i)| *i != id);
                    if live_keys.len() + 1 != before {
                        cx.v(&[prop], format!("{what}: the output of member {id} was yielded but it is not a live member"));
                        break;
                    }
                }
                if none {
                    if inserted - finished != 0 {
                        cx.v(&[prop], format!("{what}: the group returned None while {} members are live", inserted - finished));
                        break;
                    }
                    if inserted >= total {
                        break;
                    }
                } else if yielded.is_none() {
                    break;
                }
            }
            // every waker ever handed out stays harmless after the group has drained (and after it regrows)
            fire_stale();
            if cx.msgs.is_empty() {
                let mut extra = 0;
                for id in 0..3u32 {
                    g.insert($mk(total as u32 + id));
                }
                let (s, p) = drive(|c| Pin::new(&mut g).poll_next(c), 1000, false, |o| match o {
                    Some(_) => {
                        extra += 1;
                        false
                    }
                    None => true,
                });
                if cx.stop(s, p, prop, &format!("{what}, refilled with 3 members after the final None and stale wake-ups")) && extra != (0..3u32).map(|i| if !$is_stream { 1 } else if mostly_empty && (total as u32 + i) % 16 != 0 { 0 } else { per_item }).sum::<u32>() {
                    cx.v(&[prop], format!("{what}: after refilling the drained group with 3 members it yielded {extra} values"));
                }
            }
            drop(g);
            fire_stale();
            inserted
        }};
    }
    let inserted = if streams { run_group!(StreamGroup::<SS>::with_capacity(cap0), |id: u32| SS::new(id, if mostly_empty && id % 16 != 0 { 0 } else { per_item }, if all_pend { 1 } else { 2 }, later), true) } else { run_group!(FutureGroup::<SFI>::with_capacity(cap0), |id: u32| SFI(SF::new(id, if all_pend { 1 + id % 2 } else { id % 3 }, later, true)), false) };
    if cx.msgs.is_empty() && cx.inconclusive.is_none() {
        if inserted != total {
            cx.v(&[prop], format!("{what}: the run ended after {inserted} inserts"));
        }
        let per_len = if streams { per_item } else { 1 };
        let per_len_of = |i: usize| if removed[i] || (mostly_empty && i % 16 != 0) { 0 } else { per_len };
        let mut per = vec![0u32; total];
        for (s, q) in &got {
            if (*s as usize) < total && per[*s as usize] == *q {
                per[*s as usize] += 1;
            } else {
                cx.v(&[prop], format!("{what}: member {s} delivered item #{q} out of order, twice, or is unknown"));
                break;
            }
        }
        if cx.msgs.is_empty() {
            if let Some((i, c)) = per.iter().enumerate().find(|(i, c)| **c != per_len_of(*i)) {
                cx.v(&[prop], format!("{what}: member {i} ({}) has {per_len} item(s) but {c} were yielded", if removed[i] { "removed before it was ever polled" } else { "never removed" }));
            }
        }
    }
    drop(got);
    check_drops(cx, prop, &what);
    what
}

#[cfg(feature = "fc-alloc")]
fn big_pipeline(cx: &mut Ctx, prop: &'static str, r: &mut u64) -> String {
    use futures_concurrency::concurrent_stream::IntoConcurrentStream;
    use std::num::NonZeroUsize;
    let n: u32 = [300, 1025, 5000, 66_000 + (xs(r) % 5000) as u32][(xs(r) % 4) as usize];
    let limit: usize = [1, 3, 257, 1025, 2000, 0][(xs(r) % 6) as usize];
    let later = xs(r) % 2 == 0;
    let from_vec = xs(r) % 3 == 0;
    let mode = if prop == "C15" { 1 + xs(r) % 2 } else { 0 }; // 0 for_each, 1 enumerate+take+collect, 2 map+collect
    let take = if xs(r) % 2 == 0 { n as usize / 2 + 1 } else { n as usize + 7 };
    let what = format!("{} over {n} items from {} (limit {}, {})", ["for_each", "enumerate.take.collect", "map.collect"][mode as usize], if from_vec { "Vec::into_co_stream" } else { "stream.co()" }, if limit == 0 { "none".to_string() } else { limit.to_string() }, if later { "wake-later" } else { "self-wake" });
    reset_counters(0);
    let gauge = Rc::new(Cell::new(0usize));
    let maxg = Rc::new(Cell::new(0usize));
    let calls = Rc::new(RefCell::new(vec![0u8; n as usize]));
    let budget = 16 * n as u64 + 1000;
    let lim = NonZeroUsize::new(limit);
    macro_rules! go {
        ($src:expr) => {{
            match mode {
                0 => {
                    let (g, m, cl) = (gauge.clone(), maxg.clone(), calls.clone());
                    let fut = $src.limit(lim).for_each(move |v: V| {
                        let (g, m) = (g.clone(), m.clone());
                        g.set(g.get() + 1);
                        m.set(m.get().max(g.get()));
                        if let Some(c) = cl.borrow_mut().get_mut(v.seq as usize) {
                            *c = c.saturating_add(1);
                        }
                        let pend = v.seq % 3;
                        let inner = SF::new(u32::MAX, pend, later, true);
                        async move {
                            let _v = v;
                            let _ = inner.await;
                            g.set(g.get() - 1);
                        }
                    });
                    let mut f = Box::pin(fut);
                    let (s, polls) = drive(|c| f.as_mut().poll(c), budget, false, |_| true);
                    if cx.stop(s, polls, "C13", &what) {
                        if limit != 0 && maxg.get() > limit {
                            cx.v(&["C13"], format!("{what}: {} closure futures were alive at once", maxg.get()));
                        }
                        if gauge.get() != 0 {
                            cx.v(&["C13"], format!("{what}: for_each resolved while {} closure futures had not completed", gauge.get()));
                        }
                        let c = calls.borrow();
                        if let Some((i, k)) = c.iter().enumerate().find(|(_, k)| **k != 1) {
                            cx.v(&["C13"], format!("{what}: closure invoked {k} times for item #{i}"));
                        }
                    }
                    drop(f);
                }
                1 => {
                    let fut = $src.enumerate().take(take).limit(lim).collect::<Vec<(usize, V)>>();
                    let mut f = Box::pin(fut);
                    let mut out: Option<Vec<(usize, V)>> = None;
                    let (s, polls) = drive(|c| f.as_mut().poll(c), budget, false, |o| {
                        out = Some(o);
                        true
                    });
                    if cx.stop(s, polls, "C15", &what) {
                        let o = out.take().unwrap();
                        let want = take.min(n as usize);
                        if o.len() != want {
                            cx.v(&["C15"], format!("{what}: take({take}) collected {} items, expected {want}", o.len()));
                        }
                        if let Some((i, v)) = o.iter().find(|(i, v)| *i != v.seq as usize) {
                            cx.v(&["C15"], format!("{what}: enumerate paired source item #{} with index {i}", v.seq));
                        }
                        let mut seen = vec![false; n as usize];
                        for (_, v) in &o {
                            if seen[v.seq as usize] || v.seq as usize >= want {
                                cx.v(&["C15"], format!("{what}: item #{} collected twice or beyond the first {want}", v.seq));
                                break;
                            }
                            seen[v.seq as usize] = true;
                        }
                    }
                    drop(f);
                }
                _ => {
                    let cl = calls.clone();
                    let fut = $src
                        .map(move |v: V| {
                            if let Some(c) = cl.borrow_mut().get_mut(v.seq as usize) {
                                *c = c.saturating_add(1);
                            }
                            let inner = SF::new(u32::MAX, (v.seq + 1) % 3, later, true);
                            async move {
                                let _ = inner.await;
                                v
                            }
                        })
                        .limit(lim)
                        .collect::<Vec<V>>();
                    let mut f = Box::pin(fut);
                    let mut out: Option<Vec<V>> = None;
                    let (s, polls) = drive(|c| f.as_mut().poll(c), budget, false, |o| {
                        out = Some(o);
                        true
                    });
                    if cx.stop(s, polls, "C15", &what) {
                        let o = out.take().unwrap();
                        let mut seen = vec![false; n as usize];
                        let mut bad = o.len() != n as usize;
                        for v in &o {
                            if (v.seq as usize) >= seen.len() || seen[v.seq as usize] {
                                bad = true;
                                break;
                            }
                            seen[v.seq as usize] = true;
                        }
                        if bad {
                            cx.v(&["C15"], format!("{what}: collected {} items; not exactly the multiset of the {n} source items", o.len()));
                        }
                        if let Some((i, k)) = calls.borrow().iter().enumerate().find(|(_, k)| **k != 1) {
                            cx.v(&["C15"], format!("{what}: map closure invoked {k} times for item #{i}"));
                        }
                    }
                    drop(f);
                }
            }
        }};
    }
    if from_vec {
        let items: Vec<V> = (0..n).map(|i| V::new(0, i)).collect();
        go!(items.into_co_stream());
    } else {
        go!(SS::new(0, n, 5, later).co());
    }
    let p: &'static str = if mode == 0 { "C13" } else { "C15" };
    check_drops(cx, p, &what);
    what
}

/// arrays: the no_std / alloc-only / std array variants at a size no other engine instantiates
fn big_arrays(cx: &mut Ctx, fam: &'static str, r: &mut u64) -> String {
    const N: usize = 300;
    let later = xs(r) % 2 == 0;
    let what = format!("[_; {N}] {fam} ({})", if later { "wake-later" } else { "self-wake" });
    reset_counters(N);
    let budget = 4 * (N as u64 * 8) + 100;
    match fam {
        "C04" => {
            let a: [SFI; N] = core::array::from_fn(|i| SFI(SF::new(i as u32, (i % 3) as u32, later, true)));
            let mut f = Box::pin(a.join());
            let mut out = None;
            let (s, polls) = drive(|c| f.as_mut().poll(c), budget, false, |o| {
                out = Some(o);
                true
            });
            if cx.stop(s, polls, "C04", &what) {
                let o: [V; N] = out.take().unwrap();
                if let Some((i, v)) = o.iter().enumerate().find(|(i, v)| v.src as usize != *i) {
                    cx.v(&["C04"], format!("{what}: output position {i} holds the output of child {}", v.src));
                }
            }
            drop(f);
        }
        "C07" => {
            let a: [SF; N] = core::array::from_fn(|i| SF::new(i as u32, (i % 3) as u32, later, false));
            let mut f = Box::pin(a.race_ok());
            let mut errs: Option<Vec<u32>> = None;
            let (s, polls) = drive(|c| f.as_mut().poll(c), budget, false, |o| {
                errs = Some(match o {
                    Ok(v) => vec![v.src; 1],
                    Err(agg) => agg.iter().map(|e| e.src).collect(),
                });
                true
            });
            if cx.stop(s, polls, "C07", &what) {
                let e = errs.take().unwrap();
                if e.len() != N || e.iter().enumerate().any(|(i, x)| *x as usize != i) {
                    cx.v(&["C07"], format!("{what}: aggregate error is not positional / has {} entries", e.len()));
                }
            }
            drop(f);
        }
        "C09" => {
            let a: [SS; N] = core::array::from_fn(|i| SS::new(i as u32, 4 + (i % 3) as u32, 3, later));
            let mut z = Box::pin(a.zip());
            let mut rows = 0u32;
            let mut bad = false;
            let (s, polls) = drive(|c| z.as_mut().poll_next(c), budget * 4, false, |o| match o {
                Some(row) => {
                    bad |= row.iter().enumerate().any(|(i, v)| v.src as usize != i || v.seq != rows);
                    rows += 1;
                    false
                }
                None => true,
            });
            if cx.stop(s, polls, "C09", &what) && (bad || rows != 4) {
                cx.v(&["C09"], format!("{what}: {rows} rows (expected 4){}", if bad { ", a row is not positional" } else { "" }));
            }
            drop(z);
        }
        _ => {
            let lens: Vec<u32> = (0..N).map(|i| (i % 4) as u32).collect();
            let a: [SS; N] = core::array::from_fn(|i| SS::new(i as u32, lens[i], 2, later));
            let mut got = vec![];
            let chain = fam == "C10";
            let mut m: Pin<Box<dyn Stream<Item = V>>> = if chain { Box::pin(a.chain()) } else { Box::pin(a.merge()) };
            let (s, polls) = drive(|c| m.as_mut().poll_next(c), budget * 4, false, |o| match o {
                Some(v) => {
                    got.push((v.src, v.seq));
                    false
                }
                None => true,
            });
            let p: &'static str = if chain { "C10" } else { "C08" };
            if cx.stop(s, polls, p, &what) {
                check_items(cx, p, &what, &got, &lens);
            }
            drop(m);
        }
    }
    check_drops(cx, fam, &what);
    what
}

pub fn run(prop: &str, case_seed: u64) -> ExecOut {
    let mut r = case_seed | 1;
    let mut cx = Ctx { msgs: vec![], inconclusive: None };
    let pick = xs(&mut r) % 8;
    let res = std::panic::catch_unwind(std::panic::AssertUnwindSafe(|| -> String {
        #[cfg(feature = "fc-alloc")]
        {
            let arrays = pick == 0;
            match prop {
                "C04" | "C07" | "C09" | "C10" | "C08" if arrays => big_arrays(&mut cx, leak(prop), &mut r),
                "C04" | "C05" | "C07" => big_futures(&mut cx, leak(prop), &mut r),
                "C06" => big_futures(&mut cx, "race", &mut r),
                "C08" | "C09" | "C10" | "C17" => big_streams(&mut cx, leak(prop), &mut r),
                "C11" => big_group(&mut cx, false, &mut r),
                "C12" => big_group(&mut cx, true, &mut r),
                "C13" | "C15" => big_pipeline(&mut cx, leak(prop), &mut r),
                "C01" | "C16" | "C20" => match xs(&mut r) % 10 {
                    0 => big_futures(&mut cx, "C04", &mut r),
                    1 => big_futures(&mut cx, "C05", &mut r),
                    2 => big_futures(&mut cx, "C07", &mut r),
                    3 => big_futures(&mut cx, "race", &mut r),
                    4 => big_streams(&mut cx, "C08", &mut r),
                    5 => big_streams(&mut cx, "C09", &mut r),
                    6 => big_group(&mut cx, true, &mut r),
                    7 | 8 => big_group(&mut cx, false, &mut r),
                    _ => big_futures(&mut cx, "C04", &mut r),
                },
                _ => match xs(&mut r) % 12 {
                    0 => big_futures(&mut cx, "C04", &mut r),
                    1 => big_futures(&mut cx, "C05", &mut r),
                    2 => big_futures(&mut cx, "C07", &mut r),
                    3 => big_futures(&mut cx, "race", &mut r),
                    4 => big_streams(&mut cx, "C08", &mut r),
                    5 => big_streams(&mut cx, "C09", &mut r),
                    6 => big_streams(&mut cx, "C10", &mut r),
                    7 => big_group(&mut cx, false, &mut r),
                    8 => big_group(&mut cx, true, &mut r),
                    9 => big_pipeline(&mut cx, "C13", &mut r),
                    10 => big_pipeline(&mut cx, "C15", &mut r),
                    _ => big_arrays(&mut cx, ["C04", "C07", "C08", "C09", "C10"][(xs(&mut r) % 5) as usize], &mut r),
                },
            }
        }
        #[cfg(not(feature = "fc-alloc"))]
        {
            let _ = pick;
            let fam = match prop {
                "C04" | "C07" | "C08" | "C09" | "C10" => leak(prop),
                _ => ["C04", "C07", "C08", "C09", "C10"][(xs(&mut r) % 5) as usize],
            };
            big_arrays(&mut cx, fam, &mut r)
        }
    }));
    LATER.with(|q| q.borrow_mut().clear());
    // stale wakers after the combinator is gone: "no invocation of any waker ever handed out panics"
    let res = match res {
        Ok(d) => match std::panic::catch_unwind(fire_stale) {
            Ok(()) => Ok(d),
            Err(pn) => {
                cx.msgs.push((vec!["C01", leak(prop)], format!("{d}: invoking a stale waker after the combinator was dropped panicked: {}", crate::child::panic_msg(&pn))));
                Ok(d)
            }
        },
        e => e,
    };
    crate::world::w(|w| {
        w.st.fires_stale += STALE_FIRED.with(|m| m.replace(0));
        w.st.values_created += MADE.with(|m| m.get());
        w.st.values_dropped += DROPPED.with(|m| m.get());
        w.st.children_created += KIDS_MADE.with(|m| m.get());
        w.st.root_polls += ROOT_POLLS.with(|m| m.replace(0));
        w.st.fires_between += FIRED.with(|m| m.replace(0));
        w.st.child_polls += POLLS.with(|p| p.borrow().iter().map(|c| *c as u64).sum::<u64>());
    });
    let mut viol: Vec<Violation> = vec![];
    let desc = match res {
        Ok(d) => d,
        Err(pn) => {
            let m = crate::child::panic_msg(&pn);
            viol.push(Violation { props: vec![leak(prop), "C03"], msg: format!("scale workload panicked: {m}") });
            format!("scale workload for {prop} (seed {case_seed})")
        }
    };
    for (props, m) in cx.msgs {
        viol.push(Violation { props, msg: m });
    }
    let key = format!("scale/{}", desc.split(" (").next().unwrap_or("").split(':').next().unwrap_or("").replace(char::is_numeric, "#"));
    ExecOut { viol, nontrivial: true, sig: crate::world::fnv(desc.as_bytes()), inconclusive: cx.inconclusive, desc: format!("scale: {desc}"), key, ..Default::default() }
}

fn leak(p: &str) -> &'static str {
    match p {
        "C01" => "C01",
        "C02" => "C02",
        "C03" => "C03",
        "C04" => "C04",
        "C05" => "C05",
        "C06" => "C06",
        "C07" => "C07",
        "C08" => "C08",
        "C09" => "C09",
        "C10" => "C10",
        "C11" => "C11",
        "C12" => "C12",
        "C13" => "C13",
        "C14" => "C14",
        "C15" => "C15",
        "C16" => "C16",
        "C17" => "C17",
        "C19" => "C19",
        "C20" => "C20",
        _ => "C01",
    }
}
