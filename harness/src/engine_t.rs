pub fn cmd(_args: &[String]) {}
