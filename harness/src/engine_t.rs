//! Engine T: the "from another thread" clause of C01 (and C02 under concurrent wake-ups).
//!
//! The combinator, its scripted children, the reference models and the ownership accounting all live on
//! the main thread exactly as in engine A.  What changes: the waker of every `PendLater` step is handed
//! to a pool of firing threads through a shared table; those threads invoke it (by reference, by value,
//! twice), keep stale clones and re-invoke them later — concurrently with further polls of the combinator
//! and with its drop.  The root waker only records `(epoch)` in the shared table and signals the main thread.
//!
//! Verdicts are logical, never timed: the execution is *thread-quiescent* when the table is empty and no
//! firing thread holds a waker; if at that point the combinator is Pending and the current root waker has
//! not been invoked, the usual progress oracle I6 decides (every `PendLater` child has been woken by then).
//! Run natively (stress), under Miri (data races, deadlocks: definitive) and under ThreadSanitizer.

use crate::child::*;
use crate::dut::*;
use crate::engine_a::{self, CaseA, ExecOut, Profile};
use crate::model;
use crate::world::*;
use std::collections::VecDeque;
use std::sync::atomic::Ordering;
use std::sync::Arc;
use std::task::{Context, Poll, Wake, Waker};
use std::time::Duration;

pub struct TRoot {
    sh: Arc<TShared>,
    epoch: usize,
}
impl Wake for TRoot {
    fn wake(self: Arc<Self>) {
        self.wake_by_ref()
    }
    fn wake_by_ref(self: &Arc<Self>) {
        // called by the library while it holds its readiness mutex; the harness never calls into the library
        // while holding `t`, so the lock order readiness -> t is the only one that exists
        let mut t = self.sh.t.lock().unwrap();
        if self.epoch >= t.cur_epoch {
            t.root_wakes += 1;
        } else {
            t.root_wakes_stale += 1;
        }
        if self.epoch > t.woken_epoch {
            t.woken_epoch = self.epoch;
        }
        drop(t);
        self.sh.cv_main.notify_all();
    }
}

fn xs(s: &mut u64) -> u64 {
    *s ^= *s << 13;
    *s ^= *s >> 7;
    *s ^= *s << 17;
    *s
}

fn announce(t: &mut TTable, c: Cid) {
    let e = t.fired.entry(c).or_insert((0, 0));
    e.0 += 1;
    e.1 += 1;
}
fn retire(t: &mut TTable, c: Cid, n: u32) {
    if let Some(e) = t.fired.get_mut(&c) {
        e.1 = e.1.saturating_sub(n);
    }
}

fn worker(sh: Arc<TShared>, mut rng: u64) {
    let mut stale: Vec<(Cid, Waker)> = vec![];
    let mut t = sh.t.lock().unwrap();
    loop {
        if !t.wakers.is_empty() {
            let i = (xs(&mut rng) % t.wakers.len() as u64) as usize;
            let (cid, wk) = t.wakers.swap_remove(i);
            t.in_flight += 1;
            // C16 bookkeeping: mark the children whose wakers are about to be invoked (before the call, under the lock)
            announce(&mut t, cid);
            let restale_pick = if stale.is_empty() { None } else { Some((xs(&mut rng) % stale.len() as u64) as usize) };
            let restale_now = restale_pick.is_some() && xs(&mut rng) % 3 == 0;
            let restale_cid = restale_pick.map(|i| stale[i].0).unwrap_or(0);
            if restale_now {
                announce(&mut t, restale_cid);
            }
            drop(t);
            for _ in 0..(xs(&mut rng) % 3) {
                std::thread::yield_now();
            }
            let mode = xs(&mut rng) % 6;
            let restale = restale_now;
            let si = restale_pick.unwrap_or(0);
            if !cfg!(miri) && sh.rdv.load(Ordering::Relaxed) {
                let g0 = sh.go.load(Ordering::Acquire);
                sh.about.fetch_add(1, Ordering::Release);
                for _ in 0..4000 {
                    if sh.go.load(Ordering::Acquire) != g0 {
                        break;
                    }
                    std::hint::spin_loop();
                }
            }
            IN_WAKE.store(true, Ordering::Relaxed);
            let r = std::panic::catch_unwind(std::panic::AssertUnwindSafe(|| {
                // (the C16 mark is renewed before EVERY single invocation: the task may poll the child in between)
                let mark = |c: Cid| {
                    announce(&mut sh.t.lock().unwrap(), c);
                };
                match mode {
                    0 => wk.clone().wake(),
                    1 => {
                        wk.wake_by_ref();
                        mark(cid);
                        wk.wake_by_ref();
                    }
                    _ => wk.wake_by_ref(),
                }
                if restale {
                    stale[si].1.wake_by_ref();
                }
            }));
            IN_WAKE.store(false, Ordering::Relaxed);
            PROGRESS.fetch_add(1, Ordering::Relaxed);
            if stale.len() < 6 {
                stale.push((cid, wk));
            } else {
                stale[si] = (cid, wk);
            }
            t = sh.t.lock().unwrap();
            retire(&mut t, cid, 1 + (mode == 1) as u32);
            if restale {
                retire(&mut t, restale_cid, 1);
            }
            t.in_flight -= 1;
            t.fires += 1 + (mode == 1) as u64;
            if restale {
                t.fires_stale += 1;
            }
            if let Err(p) = r {
                let m = panic_msg(&p);
                t.wake_panics.push(m);
            }
            sh.cv_main.notify_all();
        } else if t.stop {
            break;
        } else {
            t = sh.cv_workers.wait(t).unwrap();
        }
    }
    drop(t);
    // the combinator is gone by now: wakers that outlive it must stay harmless, from any thread
    let mut after = 0u64;
    let mut panics = vec![];
    for (cid, wk) in stale {
        announce(&mut sh.t.lock().unwrap(), cid);
        let r = std::panic::catch_unwind(std::panic::AssertUnwindSafe(|| wk.wake()));
        retire(&mut sh.t.lock().unwrap(), cid, 1);
        after += 1;
        if let Err(p) = r {
            panics.push(panic_msg(&p));
        }
    }
    let mut t = sh.t.lock().unwrap();
    t.fires_stale += after;
    t.wake_panics.extend(panics);
}

pub fn profile(thorough: bool, c02: bool) -> Profile {
    let base = engine_a::profile("ALL", thorough);
    Profile {
        name: "T",
        max_n: if cfg!(miri) { 3 } else { 5 },
        nested_pct: 30,
        never_pct: 6,
        // the firing threads do the cross / stale / repeated fires for real
        midfire_pct: 0,
        stale_pct: 0,
        spurious: 3,
        cancel_pct: if c02 { 45 } else { 15 },
        panic_pct: if c02 { 15 } else { 0 },
        max_items: 3,
        max_pend: 3,
        big_lens: vec![],
        big_pct: 0,
        ..base
    }
}

/// One execution with `nthreads` firing threads.
pub fn run_case(p: &Profile, case: &CaseA, case_seed: u64, nthreads: usize) -> ExecOut {
    let mut out = ExecOut { desc: format!("threads={nthreads} {}", engine_a::describe_case(case)), key: format!("{}/{}/{}", case.shape.fam.name(), case.shape.cont.name(), case.shape.kids.len()), ..Default::default() };
    let (polls0, pend0) = w(|w| (w.st.root_polls, w.st.child_pending));
    let sh = Arc::new(TShared::new());
    w(|w| {
        w.phase = Phase::Constructing;
        w.root = Some(0);
        w.threaded = Some(sh.clone());
        w.midfire_pct = 0;
    });
    let mut b = Builder { scripts: VecDeque::from(case.leaves.clone()), plain: case.plain };
    let built = std::panic::catch_unwind(std::panic::AssertUnwindSafe(|| if case.shape.fam.is_stream() { Root::S(b.build_str(&case.shape, None)) } else { Root::F(b.build_fut(&case.shape, None)) }));
    w(|w| w.phase = Phase::Idle);
    let root_prop = case.shape.fam.prop();
    let mut root = match built {
        Ok(r) => Some(r),
        Err(pn) => {
            let m = panic_msg(&pn);
            w(|w| w.violate(&[root_prop], format!("constructing the combinator panicked: {m}")));
            None
        }
    };
    let mut received: Vec<Val> = vec![];
    let mut cancelled = false;
    let mut fires_total = 0u64;
    std::thread::scope(|s| {
        for k in 0..nthreads {
            let sh2 = sh.clone();
            let seed = crate::mix(case_seed, 0x7EAD + k as u64);
            s.spawn(move || worker(sh2, seed));
        }
        // "storm" executions: the task keeps polling (spuriously, with a fresh waker each time) while other threads are
        // in the middle of wake() — the window in which a check-then-act race in the wake path loses a wake-up
        let storm = w(|w| w.chance(50));
        sh.rdv.store(storm, Ordering::Relaxed);
        let mut seen_about = 0usize;
        let mut spurious_left = if storm { 24 } else { case.spurious };
        let mut steps = 0usize;
        let mut polls = 0usize;
        let mut epoch = 0usize;
        let mut waits = 0u64;
        while root.is_some() {
            steps += 1;
            if steps > 20 * engine_a::STEP_CAP {
                out.inconclusive = Some("harness step budget exceeded".into());
                break;
            }
            let rl = w(|w| w.root_last);
            if matches!(rl, RootLast::Final | RootLast::Panicked) {
                break;
            }
            if Some(polls) == case.cancel_at || (case.max_yields.is_some() && Some(received.len()) >= case.max_yields) {
                cancelled = true;
                w(|w| w.st.cancels += 1);
                break;
            }
            let (woken, quiescent) = {
                let t = sh.t.lock().unwrap();
                (epoch > 0 && t.woken_epoch >= epoch, t.wakers.is_empty() && t.in_flight == 0)
            };
            let runnable = matches!(rl, RootLast::NotPolled | RootLast::Item) || (rl == RootLast::Pending && woken);
            let mut spurious = false;
            if !runnable {
                if quiescent {
                    break; // thread-quiescent and nobody woke the task
                }
                let mut rendezvous = false;
                if storm && spurious_left > 0 && !cfg!(miri) {
                    // wait (briefly, spinning) for a firing thread to announce its wake() call, then poll at once
                    for _ in 0..3000 {
                        let a = sh.about.load(Ordering::Acquire);
                        if a != seen_about {
                            seen_about = a;
                            rendezvous = true;
                            break;
                        }
                        std::hint::spin_loop();
                    }
                }
                if rendezvous || (spurious_left > 0 && w(|w| w.chance(15))) {
                    spurious = true;
                    spurious_left -= 1;
                    w(|w| w.st.spurious_polls += 1);
                    if rendezvous {
                        w(|w| w.st.thread_rendezvous += 1);
                        sh.go.fetch_add(1, Ordering::Release);
                    }
                } else {
                    // wait for a wake-up of the current root waker or for thread-quiescence (logical condition;
                    // the timeout only bounds one wait so that a stall is seen by the process watchdog)
                    waits += 1;
                    let t = sh.t.lock().unwrap();
                    if !(t.woken_epoch >= epoch || (t.wakers.is_empty() && t.in_flight == 0)) {
                        if cfg!(miri) {
                            // no timeout under Miri: if a firing thread is blocked forever inside wake(), every
                            // thread is blocked and Miri reports the deadlock definitively
                            let _g = sh.cv_main.wait(t).unwrap();
                        } else {
                            let _g = sh.cv_main.wait_timeout(t, Duration::from_millis(50)).unwrap();
                        }
                    }
                    continue;
                }
            } else if w(|w| w.chance(30)) {
                // let more fires land before the task runs
                std::thread::yield_now();
            }
            polls += 1;
            epoch += 1;
            // (waiting does not count as progress: a firing thread stuck inside wake() is then seen by the watchdog)
            PROGRESS.fetch_add(1, Ordering::Relaxed);
            if polls > engine_a::STEP_CAP {
                out.inconclusive = Some("harness step budget exceeded".into());
                break;
            }
            let waker = Waker::from(Arc::new(TRoot { sh: sh.clone(), epoch }));
            {
                let mut t = sh.t.lock().unwrap();
                t.cur_epoch = epoch;
            }
            w(|w| {
                w.root_polls += 1;
                w.st.root_polls += 1;
                w.parent_cur = epoch;
                w.parent_woken = false;
                w.phase = Phase::Polling;
                w.injected_seen = false;
                let n = w.root_polls;
                w.ev(Ev::ExecPoll { n, waker: epoch, spurious });
            });
            let mut cx = Context::from_waker(&waker);
            let r = std::panic::catch_unwind(std::panic::AssertUnwindSafe(|| match root.as_mut().unwrap() {
                Root::F(f) => match f.as_mut().poll(&mut cx) {
                    Poll::Pending => (Res::Pend, None),
                    Poll::Ready(Ok(v)) => (Res::Ok(v.id), Some(v)),
                    Poll::Ready(Err(v)) => (Res::Err(v.id), Some(v)),
                },
                Root::S(s) => match s.as_mut().poll_next(&mut cx) {
                    Poll::Pending => (Res::Pend, None),
                    Poll::Ready(Some(v)) => (Res::Item(v.id), Some(v)),
                    Poll::Ready(None) => (Res::End, None),
                },
            }));
            drop(waker);
            match r {
                Ok((res, val)) => {
                    if let Some(v) = val {
                        v.check_live("executor");
                        received.push(v);
                    }
                    let woken_now = sh.t.lock().unwrap().woken_epoch >= epoch;
                    w(|w| {
                        w.phase = Phase::Idle;
                        w.poll_stack.clear();
                        w.parent_woken = woken_now;
                        w.root_last = match res {
                            Res::Pend => RootLast::Pending,
                            Res::Item(_) => RootLast::Item,
                            _ => RootLast::Final,
                        };
                        if res == Res::Pend {
                            w.st.root_pending += 1;
                        }
                        w.ev(Ev::ExecRet(res.clone()));
                        if res == Res::Pend {
                            model::i2_check(w);
                        }
                        // self-wakes happened on this thread during the poll: the current root waker must have fired
                        model::i1_check(w, "after poll (threads)");
                    });
                }
                Err(pn) => {
                    let injected = pn.is::<Injected>();
                    let m = panic_msg(&pn);
                    w(|w| {
                        w.phase = Phase::Idle;
                        let fam = w.poll_stack.iter().rev().find(|c| w.ch[**c].kind == Kind::Node).map(|c| w.ch[*c].fam);
                        w.poll_stack.clear();
                        w.root_last = RootLast::Panicked;
                        w.ev(Ev::ExecRet(Res::Panicked));
                        if !injected {
                            let prop = fam.map(|f| f.prop()).unwrap_or(root_prop);
                            w.violate(&[prop], format!("poll panicked (not an injected panic): {m}"));
                        }
                    });
                }
            }
        }
        let rl = w(|w| w.root_last);
        if !cancelled && out.inconclusive.is_none() && rl == RootLast::Pending {
            // thread-quiescent: every waker registered by a PendLater step has been invoked (the call returned)
            let woken_now = sh.t.lock().unwrap().woken_epoch >= epoch;
            w(|w| {
                w.parent_woken = woken_now;
                for c in w.ch.iter_mut() {
                    if c.later_outstanding {
                        c.later_outstanding = false;
                        c.latest_woken = true;
                    }
                }
                if !woken_now {
                    model::i1_check(w, "thread-quiescent");
                    model::i6_check(w);
                }
            });
        }
        w(|w| w.st.thread_waits += waits);
        // drop the combinator while the firing threads may still hold / invoke wakers
        engine_a::finish(&mut out, root.take().map(|r| Box::new(move || drop(r)) as Box<dyn FnOnce()>), std::mem::take(&mut received), polls0, pend0, cancelled);
        {
            let mut t = sh.t.lock().unwrap();
            t.stop = true;
        }
        sh.cv_workers.notify_all();
    });
    // workers have exited
    let t = sh.t.lock().unwrap();
    fires_total += t.fires;
    let mut extra: Vec<Violation> = vec![];
    for m in &t.wake_panics {
        extra.push(Violation { props: vec!["C01"], msg: format!("invoking a waker from another thread panicked: {m}") });
    }
    if t.in_flight != 0 {
        extra.push(Violation { props: vec!["C01"], msg: "a firing thread exited while holding a waker (harness bug?)".into() });
    }
    w(|w| {
        w.st.thread_fires += t.fires;
        w.st.thread_fires_stale += t.fires_stale;
        w.st.thread_root_wakes += t.root_wakes;
        w.st.thread_root_wakes_stale += t.root_wakes_stale;
        w.threaded = None;
    });
    drop(t);
    out.viol.extend(extra);
    out.nontrivial = out.nontrivial && fires_total >= 1;
    let _ = p;
    out
}

pub fn run(prop: &str, thorough: bool, case_seed: u64) -> ExecOut {
    let mut p = profile(thorough, prop == "C02");
    match prop {
        // selective polling / group behaviour under wake-ups from other threads
        "C16" => p.fams = vec![Fam::Join, Fam::TryJoin, Fam::Merge, Fam::Zip, Fam::FGroup, Fam::SGroup],
        "C20" => {
            // never-completing siblings while the others are woken from other threads
            p.fams = vec![Fam::Join, Fam::TryJoin, Fam::Race, Fam::RaceOk, Fam::Merge, Fam::Zip, Fam::FGroup, Fam::SGroup];
            p.force_never = true;
            p.never_pct = 0;
        }
        "C11" => p.fams = vec![Fam::FGroup],
        "C12" => p.fams = vec![Fam::SGroup],
        // the family's reference model (positions, short-circuit, row/order/end rules) under cross-thread wake-ups
        "C04" => p.fams = vec![Fam::Join],
        "C05" => {
            p.fams = vec![Fam::TryJoin];
            p.err_pct = 30;
        }
        "C06" => p.fams = vec![Fam::Race],
        "C07" => {
            p.fams = vec![Fam::RaceOk];
            p.err_pct = 75;
        }
        "C08" => p.fams = vec![Fam::Merge],
        "C09" => p.fams = vec![Fam::Zip],
        "C10" => p.fams = vec![Fam::Chain],
        "C19" => p.fams = vec![Fam::WaitF, Fam::WaitS],
        _ => {}
    }
    if prop == "C17" {
        // fairness under wake-ups from other threads: merges with one or two always-ready inputs
        p.fams = vec![Fam::Merge];
        p.conts = vec![Cont::Tuple, Cont::Array, Cont::Vec, Cont::Ext];
        p.always_ready = true;
        p.nested_pct = 0;
        p.max_items = 6;
    }
    reset(Src::Rng(case_seed), true);
    let (case, nthreads) = w(|w| {
        w.record_decisions = false;
        w.midfire_pct = 0;
        let c = engine_a::gen_case(w, &p);
        (c, 1 + w.below(3))
    });
    run_case(&p, &case, case_seed, nthreads)
}
