//! Engine Z: the same combinators over ZERO-SIZED outputs / items.
//!
//! A `Vec<Z>` has capacity `usize::MAX`, `MaybeUninit<Z>` occupies no memory and pointer arithmetic over `Z` does not
//! move: bookkeeping that confuses `len` with `capacity`, or that "re-creates" a buffer by capacity, only shows with
//! zero-sized types (seeded change C09-7). `Z` and `ZE` have `Drop` impls that count, so exactly-once ownership is
//! still observable; everything else is checked on *shape*: how many outputs / rows / items, and how long each row is.
//! Children are tiny self-waking scripted futures / streams (any number of Pending steps before each result), the
//! executor polls until completion with a bounded number of polls. Self-contained: no Tap nodes, no World.

use crate::engine_a::ExecOut;
use crate::world::Violation;
use futures_concurrency::prelude::*;
use futures_core::Stream;
use std::cell::Cell;
use std::future::Future;
use std::pin::Pin;
use std::sync::Arc;
use std::task::{Context, Poll, Wake, Waker};

thread_local! {
    static MADE: Cell<u64> = Cell::new(0);
    static DROPPED: Cell<u64> = Cell::new(0);
    /// polls granted to the combinator before it is dropped (POLL_CAP = run to completion)
    static BUDGET: Cell<usize> = Cell::new(POLL_CAP);
    static CANCELLED: Cell<bool> = Cell::new(false);
}

/// zero-sized value with an observable destructor
pub struct Z;
impl Z {
    fn new() -> Z {
        MADE.with(|m| m.set(m.get() + 1));
        Z
    }
}
impl Drop for Z {
    fn drop(&mut self) {
        DROPPED.with(|m| m.set(m.get() + 1));
    }
}
impl std::fmt::Debug for Z {
    fn fmt(&self, f: &mut std::fmt::Formatter<'_>) -> std::fmt::Result {
        write!(f, "Z")
    }
}
impl std::fmt::Display for Z {
    fn fmt(&self, f: &mut std::fmt::Formatter<'_>) -> std::fmt::Result {
        write!(f, "Z")
    }
}
impl std::error::Error for Z {}
const _: () = assert!(std::mem::size_of::<Z>() == 0);

struct Noop;
impl Wake for Noop {
    fn wake(self: Arc<Self>) {}
}

/// future: `pend` self-waking Pending polls, then Ok(Z) / Err(Z)
struct ZF {
    pend: u32,
    ok: bool,
}
impl Future for ZF {
    type Output = Result<Z, Z>;
    fn poll(mut self: Pin<&mut Self>, cx: &mut Context<'_>) -> Poll<Self::Output> {
        if self.pend > 0 {
            self.pend -= 1;
            cx.waker().wake_by_ref();
            return Poll::Pending;
        }
        Poll::Ready(if self.ok { Ok(Z::new()) } else { Err(Z::new()) })
    }
}
/// stream: `items` items, each preceded by `pend` self-waking Pending polls, then None
struct ZS {
    items: u32,
    pend: u32,
    left: u32,
}
impl ZS {
    fn new(items: u32, pend: u32) -> ZS {
        ZS { items, pend, left: pend }
    }
}
impl Stream for ZS {
    type Item = Z;
    fn poll_next(mut self: Pin<&mut Self>, cx: &mut Context<'_>) -> Poll<Option<Z>> {
        if self.left > 0 {
            self.left -= 1;
            cx.waker().wake_by_ref();
            return Poll::Pending;
        }
        self.left = self.pend;
        if self.items == 0 {
            return Poll::Ready(None);
        }
        self.items -= 1;
        Poll::Ready(Some(Z::new()))
    }
}

/// zero-sized CHILD types (helpers that iterate children by pointer range see an empty range for them)
struct ZReadyF;
impl Future for ZReadyF {
    type Output = Result<Z, Z>;
    fn poll(self: Pin<&mut Self>, _cx: &mut Context<'_>) -> Poll<Self::Output> {
        Poll::Ready(Ok(Z::new()))
    }
}
struct ZEmptyS;
impl Stream for ZEmptyS {
    type Item = Z;
    fn poll_next(self: Pin<&mut Self>, _cx: &mut Context<'_>) -> Poll<Option<Z>> {
        Poll::Ready(None)
    }
}
const _: () = assert!(std::mem::size_of::<ZReadyF>() == 0 && std::mem::size_of::<ZEmptyS>() == 0);

/// every family over zero-sized child types: futures that are ready at once, streams that are empty
fn zst_children(fam: &str, cont: u8, n: usize, msgs: &mut Vec<(&'static str, String)>) {
    let fp: &'static str = match fam {
        "join" => "C04",
        "try_join" => "C05",
        "race" => "C06",
        "race_ok" => "C07",
        "merge" => "C08",
        "zip" => "C09",
        _ => "C10",
    };
    let bad = |what: String| (fp, format!("over zero-sized child types: {what}"));
    match (fam, cont) {
        #[cfg(feature = "fc-alloc")]
        ("join", 0) => match drive_fut((0..n).map(|_| ZReadyF).collect::<Vec<_>>().join()) {
            Some(o) if o.len() == n => {}
            Some(o) => msgs.push(bad(format!("Vec join of {n} returned {} outputs", o.len()))),
            None => msgs.push(bad("join did not resolve".into())),
        },
        ("join", 1) => {
            if drive_fut([ZReadyF, ZReadyF, ZReadyF].join()).is_none() {
                msgs.push(bad("array join did not resolve".into()));
            }
        }
        #[cfg(feature = "fc-alloc")]
        ("try_join", 0) => match drive_fut((0..n).map(|_| ZReadyF).collect::<Vec<_>>().try_join()) {
            Some(Ok(o)) if o.len() == n => {}
            Some(_) => msgs.push(bad(format!("Vec try_join of {n} ready children did not return {n} Ok values"))),
            None => msgs.push(bad("try_join did not resolve".into())),
        },
        ("try_join", 1) => {
            if !matches!(drive_fut([ZReadyF, ZReadyF, ZReadyF].try_join()), Some(Ok(_))) {
                msgs.push(bad("array try_join of ready children did not return Ok".into()));
            }
        }
        #[cfg(feature = "fc-alloc")]
        ("race", 0) => {
            if !matches!(drive_fut((0..n).map(|_| ZReadyF).collect::<Vec<_>>().race()), Some(Ok(_))) {
                msgs.push(bad("Vec race of ready children did not resolve to Ok".into()));
            }
        }
        ("race", 1) => {
            if !matches!(drive_fut([ZReadyF, ZReadyF, ZReadyF].race()), Some(Ok(_))) {
                msgs.push(bad("array race of ready children did not resolve to Ok".into()));
            }
        }
        #[cfg(feature = "fc-alloc")]
        ("race_ok", 0) => {
            if !matches!(drive_fut((0..n).map(|_| ZReadyF).collect::<Vec<_>>().race_ok()), Some(Ok(_))) {
                msgs.push(bad("Vec race_ok of succeeding children did not resolve to Ok".into()));
            }
        }
        ("race_ok", 1) => {
            if !matches!(drive_fut([ZReadyF, ZReadyF, ZReadyF].race_ok()), Some(Ok(_))) {
                msgs.push(bad("array race_ok of succeeding children did not resolve to Ok".into()));
            }
        }
        #[cfg(feature = "fc-alloc")]
        ("merge", 0) => {
            let (got, ended) = drive_str((0..n).map(|_| ZEmptyS).collect::<Vec<_>>().merge());
            if !ended || !got.is_empty() {
                msgs.push(bad(format!("Vec merge of {n} empty inputs yielded {} items, ended: {ended}", got.len())));
            }
        }
        ("merge", 1) => {
            let (got, ended) = drive_str([ZEmptyS, ZEmptyS, ZEmptyS].merge());
            if !ended || !got.is_empty() {
                msgs.push(bad(format!("array merge of empty inputs yielded {} items, ended: {ended}", got.len())));
            }
        }
        #[cfg(feature = "fc-alloc")]
        ("zip", 0) => {
            let (got, ended) = drive_str((0..n).map(|_| ZEmptyS).collect::<Vec<_>>().zip());
            if !ended || !got.is_empty() {
                msgs.push(bad(format!("Vec zip of {n} empty inputs yielded {} rows, ended: {ended}", got.len())));
            }
        }
        ("zip", 1) => {
            let (got, ended) = drive_str([ZEmptyS, ZEmptyS, ZEmptyS].zip());
            if !ended || !got.is_empty() {
                msgs.push(bad(format!("array zip of empty inputs yielded {} rows, ended: {ended}", got.len())));
            }
        }
        #[cfg(feature = "fc-alloc")]
        ("chain", 0) => {
            let (got, ended) = drive_str((0..n).map(|_| ZEmptyS).collect::<Vec<_>>().chain());
            if !ended || !got.is_empty() {
                msgs.push(bad(format!("Vec chain of {n} empty inputs yielded {} items, ended: {ended}", got.len())));
            }
        }
        ("chain", 1) => {
            let (got, ended) = drive_str([ZEmptyS, ZEmptyS, ZEmptyS].chain());
            if !ended || !got.is_empty() {
                msgs.push(bad(format!("array chain of empty inputs yielded {} items, ended: {ended}", got.len())));
            }
        }
        ("merge", _) => {
            let (got, ended) = drive_str((ZEmptyS, ZEmptyS).merge());
            if !ended || !got.is_empty() {
                msgs.push(bad("tuple merge of empty inputs did not end at once".into()));
            }
        }
        ("chain", _) => {
            let (got, ended) = drive_str((ZEmptyS, ZEmptyS).chain());
            if !ended || !got.is_empty() {
                msgs.push(bad("tuple chain of empty inputs did not end at once".into()));
            }
        }
        ("zip", _) => {
            let (got, ended) = drive_str((ZEmptyS, ZEmptyS).zip());
            if !ended || !got.is_empty() {
                msgs.push(bad("tuple zip of empty inputs did not end at once".into()));
            }
        }
        ("join", _) => {
            if drive_fut((ZReadyF, ZReadyF).join()).is_none() {
                msgs.push(bad("tuple join did not resolve".into()));
            }
        }
        ("try_join", _) => {
            if !matches!(drive_fut((ZReadyF, ZReadyF).try_join()), Some(Ok(_))) {
                msgs.push(bad("tuple try_join did not return Ok".into()));
            }
        }
        ("race", _) => {
            if !matches!(drive_fut((ZReadyF, ZReadyF).race()), Some(Ok(_))) {
                msgs.push(bad("tuple race did not resolve".into()));
            }
        }
        ("race_ok", _) => {
            if !matches!(drive_fut((ZReadyF, ZReadyF).race_ok()), Some(Ok(_))) {
                msgs.push(bad("tuple race_ok did not resolve".into()));
            }
        }
        _ => {}
    }
}

fn xs(s: &mut u64) -> u64 {
    *s ^= *s << 13;
    *s ^= *s >> 7;
    *s ^= *s << 17;
    *s
}

const POLL_CAP: usize = 400;

fn drive_fut<F: Future>(f: F) -> Option<F::Output> {
    let mut f = Box::pin(f);
    let wk = Waker::from(Arc::new(Noop));
    let mut cx = Context::from_waker(&wk);
    let budget = BUDGET.with(|b| b.get());
    for _ in 0..budget {
        if let Poll::Ready(o) = f.as_mut().poll(&mut cx) {
            return Some(o);
        }
    }
    if budget < POLL_CAP {
        CANCELLED.with(|c| c.set(true));
    }
    None
}
/// drive a stream to its end: (items in order, ended?)
fn drive_str<S: Stream>(s: S) -> (Vec<S::Item>, bool) {
    let mut s = Box::pin(s);
    let wk = Waker::from(Arc::new(Noop));
    let mut cx = Context::from_waker(&wk);
    let mut out = vec![];
    let budget = BUDGET.with(|b| b.get());
    if budget < POLL_CAP {
        CANCELLED.with(|c| c.set(true));
    }
    for _ in 0..budget {
        match s.as_mut().poll_next(&mut cx) {
            Poll::Ready(Some(i)) => out.push(i),
            Poll::Ready(None) => return (out, true),
            Poll::Pending => {}
        }
    }
    (out, false)
}

pub fn run(prop: &str, case_seed: u64) -> ExecOut {
    let mut r = case_seed | 1;
    MADE.with(|m| m.set(0));
    DROPPED.with(|m| m.set(0));
    let mut viol: Vec<Violation> = vec![];
    let mut v = |p: &'static str, m: String| viol.push(Violation { props: vec![p], msg: m });
    let n = 1 + (xs(&mut r) % 4) as usize;
    let pends: Vec<u32> = (0..n).map(|_| (xs(&mut r) % 3) as u32).collect();
    let items: Vec<u32> = (0..n).map(|_| (xs(&mut r) % 4) as u32).collect();
    let fam: &'static str = match prop {
        "C04" => "join",
        "C05" => "try_join",
        "C06" => "race",
        "C07" => "race_ok",
        "C08" => "merge",
        "C09" => "zip",
        "C10" => "chain",
        "C11" => "future_group",
        "C12" => "stream_group",
        "C15" => "collect",
        _ => ["join", "try_join", "race", "race_ok", "merge", "zip", "chain", "future_group", "stream_group", "collect"][(xs(&mut r) % 10) as usize],
    };
    // without the alloc feature there are no Vec variants, groups or concurrent streams
    let alloc = cfg!(feature = "fc-alloc");
    let fam = if !alloc && matches!(fam, "future_group" | "stream_group" | "collect") { "zip" } else { fam };
    let cont = if alloc { (xs(&mut r) % 3) as u8 } else { 1 + (xs(&mut r) % 2) as u8 }; // 0 Vec, 1 array (n forced to 3), 2 tuple (n forced to 2)
    let all_ok = xs(&mut r) % 3 != 0;
    let fail_at = (xs(&mut r) % n as u64) as usize;
    let mkf = |i: usize| ZF { pend: pends[i % pends.len()], ok: all_ok || i != fail_at };
    let mks = |i: usize| ZS::new(items[i % items.len()], pends[i % pends.len()]);
    let desc = format!("zero-sized items: {fam} cont={} n={n} pends={pends:?} items={items:?} all_ok={all_ok} fail_at={fail_at}", ["vec", "array3", "tuple2"][cont as usize]);
    let zst_kids = xs(&mut r) % 4 == 0 && matches!(fam, "join" | "try_join" | "race" | "race_ok" | "merge" | "zip" | "chain");
    // cancellation: give the combinator only a few polls, then drop it (exercises the destructors with parked values)
    let budget = if xs(&mut r) % 3 == 0 { 1 + (xs(&mut r) % 3) as usize } else { POLL_CAP };
    BUDGET.with(|b| b.set(budget));
    let desc = if zst_kids { format!("zero-sized CHILD types: {fam} cont={} n={n}", ["vec", "array3", "tuple2"][cont as usize]) } else { format!("{desc} poll_budget={budget}") };
    let r0 = std::panic::catch_unwind(std::panic::AssertUnwindSafe(|| {
        let mut msgs: Vec<(&'static str, String)> = vec![];
        if zst_kids {
            BUDGET.with(|b| b.set(POLL_CAP));
            zst_children(fam, cont, n, &mut msgs);
            return msgs;
        }
        match (fam, cont) {
            #[cfg(feature = "fc-alloc")]
            ("join", 0) => match drive_fut((0..n).map(mkf).collect::<Vec<_>>().join()) {
                Some(o) if o.len() == n => {}
                Some(o) => msgs.push(("C04", format!("Vec join of {n} futures with zero-sized outputs returned {} outputs", o.len()))),
                None => msgs.push(("C04", "join did not resolve".into())),
            },
            ("join", 1) => {
                if drive_fut([mkf(0), mkf(1), mkf(2)].join()).is_none() {
                    msgs.push(("C04", "array join did not resolve".into()));
                }
            }
            ("join", _) => {
                if drive_fut((mkf(0), mkf(1)).join()).is_none() {
                    msgs.push(("C04", "tuple join did not resolve".into()));
                }
            }
            #[cfg(feature = "fc-alloc")]
            ("try_join", 0) => match drive_fut((0..n).map(mkf).collect::<Vec<_>>().try_join()) {
                Some(Ok(o)) if all_ok && o.len() == n => {}
                Some(Err(_)) if !all_ok => {}
                Some(Ok(o)) => msgs.push(("C05", format!("Vec try_join of {n} (all_ok={all_ok}) returned Ok with {} outputs", o.len()))),
                Some(Err(_)) => msgs.push(("C05", "try_join returned Err although every child is Ok".into())),
                None => msgs.push(("C05", "try_join did not resolve".into())),
            },
            ("try_join", 1) => match drive_fut([mkf(0), mkf(1), mkf(2)].try_join()) {
                Some(Ok(_)) if all_ok || fail_at > 2 => {}
                Some(Err(_)) if !all_ok && fail_at <= 2 => {}
                Some(_) => msgs.push(("C05", "array try_join result does not match its children".into())),
                None => msgs.push(("C05", "try_join did not resolve".into())),
            },
            ("try_join", _) => match drive_fut((mkf(0), mkf(1)).try_join()) {
                Some(Ok(_)) if all_ok || fail_at > 1 => {}
                Some(Err(_)) if !all_ok && fail_at <= 1 => {}
                Some(_) => msgs.push(("C05", "tuple try_join result does not match its children".into())),
                None => msgs.push(("C05", "try_join did not resolve".into())),
            },
            #[cfg(feature = "fc-alloc")]
            ("race", 0) => {
                if drive_fut((0..n).map(mkf).collect::<Vec<_>>().race()).is_none() {
                    msgs.push(("C06", "race did not resolve".into()));
                }
            }
            ("race", 1) => {
                if drive_fut([mkf(0), mkf(1), mkf(2)].race()).is_none() {
                    msgs.push(("C06", "race did not resolve".into()));
                }
            }
            ("race", _) => {
                if drive_fut((mkf(0), mkf(1)).race()).is_none() {
                    msgs.push(("C06", "race did not resolve".into()));
                }
            }
            #[cfg(feature = "fc-alloc")]
            ("race_ok", 0) => {
                // every child fails: the aggregate must hold n errors
                let all_fail = (0..n).map(|i| ZF { pend: pends[i], ok: false }).collect::<Vec<_>>();
                match drive_fut(all_fail.race_ok()) {
                    Some(Err(agg)) if agg.len() == n => {}
                    Some(Err(agg)) => msgs.push(("C07", format!("Vec race_ok of {n} failing futures returned an aggregate of {} errors", agg.len()))),
                    Some(Ok(_)) => msgs.push(("C07", "race_ok returned Ok although every child failed".into())),
                    None => msgs.push(("C07", "race_ok did not resolve".into())),
                }
            }
            ("race_ok", 1) => match drive_fut([mkf(0), mkf(1), mkf(2)].race_ok()) {
                Some(_) => {}
                None => msgs.push(("C07", "race_ok did not resolve".into())),
            },
            ("race_ok", _) => match drive_fut((mkf(0), mkf(1)).race_ok()) {
                Some(_) => {}
                None => msgs.push(("C07", "race_ok did not resolve".into())),
            },
            #[cfg(feature = "fc-alloc")]
            ("merge", 0) => {
                let want: u32 = (0..n).map(|i| items[i]).sum();
                let (got, ended) = drive_str((0..n).map(mks).collect::<Vec<_>>().merge());
                if !ended || got.len() as u32 != want {
                    msgs.push(("C08", format!("Vec merge yielded {} zero-sized items (ended: {ended}), inputs hold {want}", got.len())));
                }
            }
            ("merge", 1) => {
                let want: u32 = (0..3).map(|i| items[i % n]).sum();
                let (got, ended) = drive_str([mks(0), mks(1), mks(2)].merge());
                if !ended || got.len() as u32 != want {
                    msgs.push(("C08", format!("array merge yielded {} zero-sized items (ended: {ended}), inputs hold {want}", got.len())));
                }
            }
            ("merge", _) => {
                let want: u32 = (0..2).map(|i| items[i % n]).sum();
                let (got, ended) = drive_str((mks(0), mks(1)).merge());
                if !ended || got.len() as u32 != want {
                    msgs.push(("C08", format!("tuple merge yielded {} zero-sized items (ended: {ended}), inputs hold {want}", got.len())));
                }
            }
            #[cfg(feature = "fc-alloc")]
            ("zip", 0) => {
                let want = (0..n).map(|i| items[i]).min().unwrap_or(0);
                let (rows, ended) = drive_str((0..n).map(mks).collect::<Vec<_>>().zip());
                // never format or iterate a row before its length has been checked
                let lens: Vec<usize> = rows.iter().map(|r| r.len()).collect();
                if !ended || rows.len() as u32 != want || lens.iter().any(|l| *l != n) {
                    msgs.push(("C09", format!("Vec zip of {n} inputs of zero-sized items yielded rows of lengths {lens:?} (ended: {ended}); expected {want} rows of length {n}")));
                }
                for mut row in rows {
                    if row.len() != n {
                        // SAFETY: forget the bogus row instead of dropping usize::MAX elements one by one
                        unsafe { row.set_len(0) };
                    }
                }
            }
            ("zip", 1) => {
                let want = (0..3).map(|i| items[i % n]).min().unwrap_or(0);
                let (rows, ended) = drive_str([mks(0), mks(1), mks(2)].zip());
                if !ended || rows.len() as u32 != want {
                    msgs.push(("C09", format!("array zip yielded {} rows (ended: {ended}), expected {want}", rows.len())));
                }
            }
            ("zip", _) => {
                let want = (0..2).map(|i| items[i % n]).min().unwrap_or(0);
                let (rows, ended) = drive_str((mks(0), mks(1)).zip());
                if !ended || rows.len() as u32 != want {
                    msgs.push(("C09", format!("tuple zip yielded {} rows (ended: {ended}), expected {want}", rows.len())));
                }
            }
            #[cfg(feature = "fc-alloc")]
            ("chain", 0) => {
                let want: u32 = (0..n).map(|i| items[i]).sum();
                let (got, ended) = drive_str((0..n).map(mks).collect::<Vec<_>>().chain());
                if !ended || got.len() as u32 != want {
                    msgs.push(("C10", format!("Vec chain yielded {} zero-sized items (ended: {ended}), inputs hold {want}", got.len())));
                }
            }
            ("chain", 1) => {
                let want: u32 = (0..3).map(|i| items[i % n]).sum();
                let (got, ended) = drive_str([mks(0), mks(1), mks(2)].chain());
                if !ended || got.len() as u32 != want {
                    msgs.push(("C10", format!("array chain yielded {} items (ended: {ended}), inputs hold {want}", got.len())));
                }
            }
            ("chain", _) => {
                let want: u32 = (0..2).map(|i| items[i % n]).sum();
                let (got, ended) = drive_str((mks(0), mks(1)).chain());
                if !ended || got.len() as u32 != want {
                    msgs.push(("C10", format!("tuple chain yielded {} items (ended: {ended}), inputs hold {want}", got.len())));
                }
            }
            #[cfg(feature = "fc-alloc")]
            ("future_group", _) => {
                let mut g = futures_concurrency::future::FutureGroup::new();
                for i in 0..n {
                    g.insert(Box::pin(mkf(i)));
                }
                let (got, ended) = drive_str(g);
                if !ended || got.len() != n {
                    msgs.push(("C11", format!("FutureGroup of {n} futures with zero-sized outputs yielded {} (ended: {ended})", got.len())));
                }
            }
            #[cfg(feature = "fc-alloc")]
            ("stream_group", _) => {
                let want: u32 = (0..n).map(|i| items[i]).sum();
                let mut g = futures_concurrency::stream::StreamGroup::new();
                for i in 0..n {
                    g.insert(Box::pin(mks(i)));
                }
                let (got, ended) = drive_str(g);
                if !ended || got.len() as u32 != want {
                    msgs.push(("C12", format!("StreamGroup yielded {} zero-sized items (ended: {ended}), members hold {want}", got.len())));
                }
            }
            #[cfg(feature = "fc-alloc")]
            ("collect", _) => {
                let k = n + items[0] as usize;
                let src: Vec<Z> = (0..k).map(|_| Z::new()).collect();
                let p0 = pends[0];
                match drive_fut(src.into_co_stream().map(move |z| async move {
                    let _ = ZF { pend: p0, ok: true }.await;
                    z
                }).collect::<Vec<Z>>()) {
                    Some(o) if o.len() == k => {}
                    Some(o) => msgs.push(("C15", format!("collect over {k} zero-sized items returned {}", o.len()))),
                    None => msgs.push(("C15", "collect did not resolve".into())),
                }
            }
            _ => {}
        }
        msgs
    }));
    let cancelled = CANCELLED.with(|c| c.replace(false));
    match r0 {
        Ok(msgs) => {
            // a cancelled run is judged on ownership only (its shape is whatever it had reached)
            if !cancelled {
                for (p, m) in msgs {
                    v(p, m);
                }
            }
        }
        Err(pn) => {
            let p: &'static str = match fam {
                "join" => "C04",
                "try_join" => "C05",
                "race" => "C06",
                "race_ok" => "C07",
                "merge" => "C08",
                "zip" => "C09",
                "chain" => "C10",
                "future_group" => "C11",
                "stream_group" => "C12",
                _ => "C15",
            };
            v(p, format!("panicked: {}", crate::child::panic_msg(&pn)));
        }
    }
    let (made, dropped) = (MADE.with(|m| m.get()), DROPPED.with(|m| m.get()));
    if viol.is_empty() && made != dropped {
        // (C05: values of finished siblings are dropped, not returned; C09: unmatched items are dropped)
        let mut props = vec!["C02"];
        match fam {
            "try_join" => props.push("C05"),
            "zip" => props.push("C09"),
            _ => {}
        }
        viol.push(Violation { props, msg: format!("{made} zero-sized values were produced but {dropped} were dropped (cancelled after {budget} polls: {cancelled})") });
    }
    ExecOut { viol, nontrivial: pends.iter().any(|p| *p > 0), sig: crate::mix(case_seed, 0x5A) ^ crate::world::fnv(desc.as_bytes()), desc, key: format!("zst/{fam}/{}", ["vec", "array", "tuple"][cont as usize]), ..Default::default() }
}
