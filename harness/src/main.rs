//! fcv — runtime-monitoring harness for futures-concurrency.
//!
//!   fcv run    --prop Cxx --tier quick|thorough --seed S --shard i/n --iters K --out FILE [--engines A,B,C]
//!   fcv replay --engine A|B|C --profile Cxx --tier T --case-seed X [--sub N]
//!   fcv replay --engine A --profile SMALL --decisions 1,0,2,...
//!   fcv dfs    --prop Cxx --budget K --out FILE --shard i/n
//!   fcv threads ... (engine T, see engine_t.rs)
//!   fcv sigs-merge FILE...

mod child;
mod dut;
mod engine_a;
#[cfg(feature = "fc-alloc")]
mod engine_b;
#[cfg(feature = "fc-alloc")]
mod engine_c;
#[cfg(feature = "fc-std")]
mod engine_t;
mod engine_s;
mod engine_z;
mod model;
mod world;

use engine_a::ExecOut;
use std::collections::{BTreeMap, HashSet};
use std::io::Write;
use world::*;

pub fn config_name() -> &'static str {
    if cfg!(feature = "fc-std") {
        "std"
    } else if cfg!(feature = "fc-alloc") {
        "alloc"
    } else {
        "nostd"
    }
}

fn arg<'a>(args: &'a [String], name: &str) -> Option<&'a str> {
    args.iter().position(|a| a == name).and_then(|i| args.get(i + 1)).map(|s| s.as_str())
}

pub fn mix(a: u64, b: u64) -> u64 {
    let mut x = a ^ b.wrapping_mul(0x9E3779B97F4A7C15);
    x ^= x >> 30;
    x = x.wrapping_mul(0xBF58476D1CE4E5B9);
    x ^= x >> 27;
    x = x.wrapping_mul(0x94D049BB133111EB);
    x ^= x >> 31;
    x | 1
}

/// Which engines contribute to a property's check, with their relative share of the iteration budget.
fn engines_for(prop: &str) -> Vec<(&'static str, u32)> {
    let alloc = cfg!(feature = "fc-alloc");
    let mut v: Vec<(&'static str, u32)> = match prop {
        "C01" | "C03" => vec![("A", 6), ("B", 2), ("C", 2)],
        "C02" => vec![("A", 60), ("B", 20), ("C", 20), ("Z", 2)],
        "C20" | "C16" => vec![("A", 7), ("B", 3)],
        "C11" | "C12" => vec![("B", 50), ("Z", 1)],
        "C13" | "C14" => vec![("C", 1)],
        "C15" => vec![("C", 50), ("Z", 1)],
        "C04" | "C05" | "C06" | "C07" | "C08" | "C09" | "C10" => vec![("A", 50), ("Z", 1)],
        _ => vec![("A", 1)],
    };
    if !alloc {
        v.retain(|(e, _)| *e == "A" || *e == "Z");
    }
    v
}

pub struct Acc {
    pub evaluations: u64,
    pub nontrivial: u64,
    pub sigs: HashSet<u64>,
    pub sig_cap: usize,
    pub by_key: BTreeMap<String, u64>,
    pub violations: Vec<String>, // json objects
    pub viol_count: u64,
    pub other: BTreeMap<String, (u64, String)>,
    pub inconclusive: u64,
    pub inconclusive_msgs: Vec<String>,
    pub samples: Vec<String>,
}
impl Acc {
    fn new() -> Acc {
        Acc { evaluations: 0, nontrivial: 0, sigs: HashSet::new(), sig_cap: 400_000, by_key: BTreeMap::new(), violations: vec![], viol_count: 0, other: BTreeMap::new(), inconclusive: 0, inconclusive_msgs: vec![], samples: vec![] }
    }
}

fn jarr(v: &[String]) -> String {
    format!("[{}]", v.join(","))
}

/// Fold one execution into the accumulator. `replay` = argv that re-executes this case.
fn absorb(acc: &mut Acc, prop: &str, engine: &str, out: ExecOut, replay: String) {
    acc.evaluations += 1;
    *acc.by_key.entry(format!("{engine}:{}", out.key)).or_default() += 1;
    if let Some(m) = &out.inconclusive {
        // an execution that ran out of harness budget proves nothing about what it did not reach; a monitor
        // that fired before that point still fired
        if !out.viol.iter().any(|v| v.props.iter().any(|p| *p == prop)) {
            acc.inconclusive += 1;
            if acc.inconclusive_msgs.len() < 3 {
                acc.inconclusive_msgs.push(format!("{m} [{replay}]"));
            }
            return;
        }
    }
    if out.nontrivial {
        acc.nontrivial += 1;
        if acc.sigs.len() < acc.sig_cap {
            acc.sigs.insert(out.sig ^ fnv(out.key.as_bytes()));
        }
    }
    let mine: Vec<&Violation> = out.viol.iter().filter(|v| v.props.iter().any(|p| *p == prop)).collect();
    if !mine.is_empty() {
        acc.viol_count += 1;
        if acc.violations.len() < 5 {
            let msgs: Vec<String> = mine.iter().map(|v| jstr(&v.msg)).collect();
            let tr: Vec<String> = engine_a::trace().iter().take(400).map(|s| jstr(s)).collect();
            acc.violations.push(format!(
                "{{\"property\":{},\"engine\":{},\"config\":{},\"case\":{},\"replay_args\":{},\"messages\":{},\"trace\":{}}}",
                jstr(prop),
                jstr(engine),
                jstr(config_name()),
                jstr(&out.desc),
                jstr(&replay),
                jarr(&msgs),
                jarr(&tr)
            ));
        }
    }
    for v in out.viol.iter().filter(|v| !v.props.iter().any(|p| *p == prop)) {
        let e = acc.other.entry(v.props.join("+")).or_insert((0, format!("{} [{replay}]", v.msg)));
        e.0 += 1;
    }
    if out.nontrivial && acc.samples.len() < 2 && out.viol.is_empty() {
        let tr: Vec<String> = engine_a::trace().iter().take(60).map(|s| jstr(s)).collect();
        acc.samples.push(format!("{{\"engine\":{},\"config\":{},\"case\":{},\"replay_args\":{},\"trace_head\":{}}}", jstr(engine), jstr(config_name()), jstr(&out.desc), jstr(&replay), jarr(&tr)));
    }
}

fn run_one(engine: &str, prop: &str, thorough: bool, case_seed: u64, sub: u64) -> ExecOut {
    match engine {
        "A" => {
            let p = engine_a::profile(prop, thorough);
            reset(Src::Rng(case_seed), true);
            engine_a::run(&p, false)
        }
        #[cfg(feature = "fc-alloc")]
        "B" => engine_b::run(prop, thorough, case_seed, sub),
        #[cfg(feature = "fc-alloc")]
        "C" => engine_c::run(prop, thorough, case_seed, sub),
        #[cfg(feature = "fc-std")]
        "T" => engine_t::run(prop, thorough, case_seed),
        "Z" => engine_z::run(prop, case_seed),
        "S" => engine_s::run(prop, case_seed),
        e => panic!("engine {e} not available in configuration {}", config_name()),
    }
}

fn write_out(path: Option<&str>, s: &str) {
    match path {
        Some(p) if p != "-" => std::fs::write(p, s).expect("write out file"),
        _ => println!("{s}"),
    }
}

fn summary_json(acc: &Acc, prop: &str, tier: &str, seed: u64, shard: (u64, u64), wall: f64, extra: &str) -> String {
    let st = w(|w| w.st.clone());
    let stats: Vec<String> = st.fields().iter().map(|(k, v)| format!("{}:{}", jstr(k), v)).collect();
    let keys: Vec<String> = acc.by_key.iter().map(|(k, v)| format!("{}:{}", jstr(k), v)).collect();
    let other: Vec<String> = acc.other.iter().map(|(k, (n, m))| format!("{}:{{\"count\":{},\"example\":{}}}", jstr(k), n, jstr(m))).collect();
    let inc: Vec<String> = acc.inconclusive_msgs.iter().map(|s| jstr(s)).collect();
    format!(
        "{{\"property\":{},\"config\":{},\"tier\":{},\"seed\":{},\"shard\":[{},{}],\"evaluations\":{},\"nontrivial\":{},\"distinct_sigs_in_shard\":{},\"violating_executions\":{},\"violations\":{},\"other_property_notes\":{{{}}},\"inconclusive\":{},\"inconclusive_examples\":{},\"stats\":{{{}}},\"coverage\":{{{}}},\"samples\":{},\"wall_s\":{:.3}{}}}",
        jstr(prop),
        jstr(config_name()),
        jstr(tier),
        seed,
        shard.0,
        shard.1,
        acc.evaluations,
        acc.nontrivial,
        acc.sigs.len(),
        acc.viol_count,
        jarr(&acc.violations),
        other.join(","),
        acc.inconclusive,
        jarr(&inc),
        stats.join(","),
        keys.join(","),
        jarr(&acc.samples),
        wall,
        extra
    )
}

fn write_sigs(path: &str, sigs: &HashSet<u64>) {
    let mut v: Vec<u64> = sigs.iter().cloned().collect();
    v.sort_unstable();
    let mut f = std::io::BufWriter::new(std::fs::File::create(path).expect("sig file"));
    for x in v {
        f.write_all(&x.to_le_bytes()).unwrap();
    }
}

fn cmd_run(args: &[String]) {
    let prop = arg(args, "--prop").expect("--prop");
    let tier = arg(args, "--tier").unwrap_or("quick");
    let thorough = tier == "thorough";
    let seed: u64 = arg(args, "--seed").unwrap_or("1").parse().expect("seed");
    let (si, sn) = {
        let s = arg(args, "--shard").unwrap_or("0/1");
        let mut it = s.split('/');
        (it.next().unwrap().parse::<u64>().unwrap(), it.next().unwrap().parse::<u64>().unwrap())
    };
    let iters: u64 = arg(args, "--iters").unwrap_or("1000").parse().expect("iters");
    let out = arg(args, "--out");
    let engines: Vec<(&str, u32)> = match arg(args, "--engines") {
        Some(e) => ["A", "B", "C", "T", "Z", "S"].into_iter().filter(|n| e.split(',').any(|x| x == *n)).map(|n| (n, 1)).collect(),
        None => engines_for(prop),
    };
    let breadcrumb = arg(args, "--breadcrumb");
    let t0 = std::time::Instant::now();
    let mut acc = Acc::new();
    let total_w: u32 = engines.iter().map(|e| e.1).sum::<u32>().max(1);
    for (engine, wt) in &engines {
        let n = iters * (*wt as u64) / total_w as u64;
        for it in 0..n {
            let case_seed = mix(mix(seed, fnv(prop.as_bytes()) ^ fnv(engine.as_bytes())), si * 1_000_003 + it * sn.max(1) + 7);
            let replay = format!("replay --engine {engine} --profile {prop} --tier {tier} --case-seed {case_seed} --sub {it}");
            if let Some(b) = breadcrumb {
                let _ = std::fs::write(b, format!("{} {}", config_name(), replay));
            }
            let o = run_one(engine, prop, thorough, case_seed, it);
            absorb(&mut acc, prop, engine, o, replay);
        }
    }
    let wall = t0.elapsed().as_secs_f64();
    if let Some(p) = out {
        if p != "-" {
            write_sigs(&format!("{p}.sigs"), &acc.sigs);
        }
    }
    let s = summary_json(&acc, prop, tier, seed, (si, sn), wall, "");
    write_out(out, &s);
}

fn cmd_replay(args: &[String]) {
    let engine = arg(args, "--engine").expect("--engine");
    let prop = arg(args, "--profile").expect("--profile");
    let thorough = arg(args, "--tier").unwrap_or("quick") == "thorough";
    let sub: u64 = arg(args, "--sub").unwrap_or("0").parse().unwrap();
    let o = if let (Some(d), "Csmall") = (arg(args, "--decisions"), engine) {
        let v: Vec<u32> = d.split(',').filter(|s| !s.is_empty()).map(|s| s.parse().unwrap()).collect();
        let sc: Vec<usize> = arg(args, "--scope").expect("--scope").split(',').map(|x| x.parse().unwrap()).collect();
        reset(Src::Script { v, pos: 0 }, true);
        #[cfg(feature = "fc-alloc")]
        {
            engine_c::run_small(prop, engine_c::SmallC { stack: sc[0], term: sc[1] as u8, src_vec: sc[2] != 0, max_len: sc[3] })
        }
        #[cfg(not(feature = "fc-alloc"))]
        {
            let _ = sc;
            panic!("engine C not available")
        }
    } else if let (Some(d), "Bsmall") = (arg(args, "--decisions"), engine) {
        let v: Vec<u32> = d.split(',').filter(|s| !s.is_empty()).map(|s| s.parse().unwrap()).collect();
        let sc: Vec<usize> = arg(args, "--scope").expect("--scope").split(',').map(|x| x.parse().unwrap()).collect();
        reset(Src::Script { v, pos: 0 }, true);
        #[cfg(feature = "fc-alloc")]
        {
            engine_b::run_small(prop, engine_b::SmallB { cap0: sc[0], keyed: sc[1] != 0, max_ops: sc[2], members: sc[3] })
        }
        #[cfg(not(feature = "fc-alloc"))]
        {
            let _ = sc;
            panic!("engine B not available")
        }
    } else if let Some(d) = arg(args, "--decisions") {
        let v: Vec<u32> = d.split(',').filter(|s| !s.is_empty()).map(|s| s.parse().unwrap()).collect();
        let mut p = engine_a::profile(prop, thorough);
        if let Some(sh) = arg(args, "--shape") {
            let f: Vec<&str> = sh.split('/').collect();
            p.force_shape = Some((Fam::from_name(f[0]).expect("family"), Cont::from_name(f[1]).expect("container"), f[2].parse().expect("n")));
        }
        reset(Src::Script { v, pos: 0 }, true);
        engine_a::run(&p, true)
    } else if prop == "ALLK" {
        let cs: u64 = arg(args, "--case-seed").expect("--case-seed").parse().expect("case seed");
        let mut p = engine_a::profile("C02", false);
        p.cancel_pct = 0;
        p.panic_pct = 0;
        p.max_n = 5;
        p.big_pct = 0;
        let f = arg(args, "--fault").unwrap_or("none");
        let parts: Vec<&str> = f.split(':').collect();
        let fault = match parts[0] {
            "cancel" => engine_a::Fault::CancelAt(parts[1].parse().unwrap()),
            "panic" => engine_a::Fault::PanicAt(parts[1].parse().unwrap(), parts[2].parse().unwrap()),
            _ => engine_a::Fault::None,
        };
        reset(Src::Rng(cs), true);
        engine_a::run_fault(&p, false, fault)
    } else if let (Some(c), "C") = (arg(args, "--cancel"), engine) {
        let cs: u64 = arg(args, "--case-seed").expect("--case-seed").parse().expect("case seed");
        #[cfg(feature = "fc-alloc")]
        {
            engine_c::run_fault(prop, thorough, cs, sub, Some(c.parse().unwrap_or(usize::MAX)))
        }
        #[cfg(not(feature = "fc-alloc"))]
        {
            let _ = (c, cs);
            panic!("engine C not available")
        }
    } else {
        let cs: u64 = arg(args, "--case-seed").expect("--case-seed").parse().expect("case seed");
        run_one(engine, prop, thorough, cs, sub)
    };
    println!("configuration: {}", config_name());
    println!("case: {}", o.desc);
    for l in engine_a::trace() {
        println!("{l}");
    }
    if let Some(m) = &o.inconclusive {
        println!("INCONCLUSIVE: {m}");
    }
    if o.viol.is_empty() {
        println!("REPLAY-RESULT: no monitor fired");
    }
    for v in &o.viol {
        println!("REPLAY-VIOLATION property={} {}", v.props.join("+"), v.msg);
    }
}

/// Small-scope systematic sweep: for every flat shape (7 families x 3 containers x n <= 2 [3 with --max-n 3]) a
/// depth-first enumeration of the whole decision vector (scripts of every child, then every scheduling choice of
/// the executor). Stateless search: each vector is one execution; `budget` caps the executions per shape and the
/// summary says for how many shapes the space was exhausted.
fn cmd_dfs(args: &[String]) {
    let prop = arg(args, "--prop").expect("--prop");
    let budget: u64 = arg(args, "--budget").unwrap_or("100000").parse().unwrap();
    let max_n: usize = arg(args, "--max-n").unwrap_or("2").parse().unwrap();
    let out = arg(args, "--out");
    let (si, sn) = {
        let s = arg(args, "--shard").unwrap_or("0/1");
        let mut it = s.split('/');
        (it.next().unwrap().parse::<u64>().unwrap(), it.next().unwrap().parse::<u64>().unwrap())
    };
    let t0 = std::time::Instant::now();
    let mut acc = Acc::new();
    let mut shapes = engine_a::small_shapes(max_n);
    if let Some(f) = arg(args, "--fams") {
        shapes.retain(|s| f.split(',').any(|x| x == s.0.name()));
    }
    let (mut nshapes, mut nexhausted) = (0u64, 0u64);
    let mut per_shape: Vec<String> = vec![];
    for (k, sh) in shapes.iter().enumerate() {
        if k as u64 % sn != si {
            continue;
        }
        let mut p = engine_a::profile(if max_n >= 3 { "SMALL3" } else { "SMALL" }, false);
        p.force_shape = Some(*sh);
        nshapes += 1;
        let mut prefix: Vec<u32> = vec![];
        let mut exhausted = false;
        let mut n = 0u64;
        loop {
            reset(Src::Script { v: prefix.clone(), pos: 0 }, true);
            let o = engine_a::run(&p, true);
            let (taken, arities) = (o.decisions.clone(), o.arities.clone());
            n += 1;
            let replay = format!("replay --engine A --profile {} --shape {}/{}/{} --decisions {}", if max_n >= 3 { "SMALL3" } else { "SMALL" }, sh.0.name(), sh.1.name(), sh.2, taken.iter().map(|d| d.to_string()).collect::<Vec<_>>().join(","));
            absorb(&mut acc, prop, "A-dfs", o, replay);
            // next decision vector in depth-first order
            let mut k = taken.len();
            let mut next = taken;
            loop {
                if k == 0 {
                    exhausted = true;
                    break;
                }
                k -= 1;
                if next[k] + 1 < arities[k] {
                    next[k] += 1;
                    next.truncate(k + 1);
                    break;
                }
            }
            if exhausted || n >= budget {
                break;
            }
            prefix = next;
        }
        if exhausted {
            nexhausted += 1;
        }
        per_shape.push(format!("{}:{{\"executions\":{},\"exhausted\":{}}}", jstr(&format!("{}/{}/{}", sh.0.name(), sh.1.name(), sh.2)), n, exhausted));
    }
    let wall = t0.elapsed().as_secs_f64();
    if let Some(pth) = out {
        if pth != "-" {
            write_sigs(&format!("{pth}.sigs"), &acc.sigs);
        }
    }
    let s = summary_json(&acc, prop, "dfs", 0, (si, sn), wall, &format!(",\"dfs_shapes\":{nshapes},\"dfs_shapes_exhausted\":{nexhausted},\"dfs_exhausted\":{},\"dfs_per_shape\":{{{}}}", nshapes == nexhausted, per_shape.join(",")));
    write_out(out, &s);
}

/// Small-scope systematic sweep of GROUP OPERATION HISTORIES (C11 / C12): for one scope (initial capacity, keyed or
/// plain view, at most `members` inserts with scripts of <= 1 Pending step / <= 1 item, at most `max_ops` operations
/// drawn from {poll, spurious poll, fire an outstanding waker, fire any stale waker, insert, remove any key ever
/// returned, one reserve}) EVERY decision vector is executed depth-first, each history then drained by the wake-only
/// executor and dropped, with all monitors on.  One scope per shard.
#[cfg(feature = "fc-alloc")]
fn cmd_dfsb(args: &[String]) {
    let prop = arg(args, "--prop").expect("--prop");
    let budget: u64 = arg(args, "--budget").unwrap_or("1000000").parse().unwrap();
    let members: usize = arg(args, "--members").unwrap_or("2").parse().unwrap();
    let max_ops: usize = arg(args, "--max-ops").unwrap_or("5").parse().unwrap();
    let out = arg(args, "--out");
    let (si, sn) = {
        let s = arg(args, "--shard").unwrap_or("0/1");
        let mut it = s.split('/');
        (it.next().unwrap().parse::<u64>().unwrap(), it.next().unwrap().parse::<u64>().unwrap())
    };
    let t0 = std::time::Instant::now();
    let mut acc = Acc::new();
    let mut scopes: Vec<engine_b::SmallB> = vec![];
    for cap0 in [0usize, 1] {
        for keyed in [false, true] {
            scopes.push(engine_b::SmallB { cap0, keyed, max_ops, members });
        }
    }
    // the first decision of a history (which operation comes first is forced: insert) carries no choice, so shards
    // beyond the four scopes split on the FIRST recorded decision (residue classes)
    let per = (sn as usize / scopes.len()).max(1) as u32;
    let (mut nscopes, mut nexhausted) = (0u64, 0u64);
    let mut per_shape: Vec<String> = vec![];
    for (k, sb) in scopes.iter().enumerate() {
        for part in 0..per {
            if (k as u64 * per as u64 + part as u64) % sn != si {
                continue;
            }
            nscopes += 1;
            let mut prefix: Vec<u32> = vec![];
            let mut exhausted = false;
            let mut n = 0u64;
            let mut first = true;
            loop {
                reset(Src::Script { v: prefix.clone(), pos: 0 }, true);
                let o = engine_b::run_small(prop, *sb);
                let (taken, arities) = (o.decisions.clone(), o.arities.clone());
                // partition on the first decision
                let mine = per == 1 || taken.is_empty() || taken[0] % per == part;
                if mine {
                    n += 1;
                    let replay = format!("replay --engine Bsmall --profile {prop} --scope {},{},{},{} --decisions {}", sb.cap0, sb.keyed as u8, sb.max_ops, sb.members, taken.iter().map(|d| d.to_string()).collect::<Vec<_>>().join(","));
                    absorb(&mut acc, prop, "B-dfs", o, replay);
                }
                let _ = first;
                first = false;
                let mut k2 = taken.len();
                let mut next = taken;
                loop {
                    if k2 == 0 {
                        exhausted = true;
                        break;
                    }
                    k2 -= 1;
                    if next[k2] + 1 < arities[k2] {
                        next[k2] += 1;
                        next.truncate(k2 + 1);
                        break;
                    }
                }
                // skip whole subtrees that belong to another part
                if !exhausted && per > 1 && next[0] % per != part {
                    let mut d0 = next[0];
                    while d0 < arities[0] && d0 % per != part {
                        d0 += 1;
                    }
                    if d0 >= arities[0] {
                        exhausted = true;
                    } else {
                        next = vec![d0];
                    }
                }
                if exhausted || n >= budget {
                    break;
                }
                prefix = next;
            }
            if exhausted {
                nexhausted += 1;
            }
            per_shape.push(format!("{}:{{\"executions\":{},\"exhausted\":{}}}", jstr(&format!("{}/cap{}/{}/members{}/ops{}/part{}of{}", if prop == "C12" { "stream_group" } else { "future_group" }, sb.cap0, if sb.keyed { "keyed" } else { "plain" }, sb.members, sb.max_ops, part, per)), n, exhausted));
        }
    }
    let wall = t0.elapsed().as_secs_f64();
    if let Some(pth) = out {
        if pth != "-" {
            write_sigs(&format!("{pth}.sigs"), &acc.sigs);
        }
    }
    let s = summary_json(&acc, prop, "dfsb", 0, (si, sn), wall, &format!(",\"dfs_shapes\":{nscopes},\"dfs_shapes_exhausted\":{nexhausted},\"dfs_exhausted\":{},\"dfs_per_shape\":{{{}}}", nscopes == nexhausted, per_shape.join(",")));
    write_out(out, &s);
}
#[cfg(not(feature = "fc-alloc"))]
fn cmd_dfsb(_args: &[String]) {
    panic!("groups need the alloc feature");
}

/// Small-scope systematic sweep of CONCURRENT-STREAM PIPELINES (C13 / C14 / C15): one scope = adapter stack x
/// terminal x source kind; within it EVERY decision vector is executed depth-first: source length 0..=max_len, the
/// limits (1 | 2 | none) and takes (0 | 1 | 2 | 100) the stack uses, per source position the readiness of the source
/// (ready | Pending+self-wake | Pending+wake-later), of the terminal closure's future (same three, x Ok|Err for the
/// fallible terminals) and of the map futures (ready | wake-later), a Pending step before the end of the source, and
/// every order of polls / fires of outstanding wakers, plus at most one stale fire and one spurious poll.
#[cfg(feature = "fc-alloc")]
fn cmd_dfsc(args: &[String]) {
    let prop = arg(args, "--prop").expect("--prop");
    let budget: u64 = arg(args, "--budget").unwrap_or("1000000").parse().unwrap();
    let max_len: usize = arg(args, "--max-len").unwrap_or("2").parse().unwrap();
    let out = arg(args, "--out");
    let (si, sn) = {
        let s = arg(args, "--shard").unwrap_or("0/1");
        let mut it = s.split('/');
        (it.next().unwrap().parse::<u64>().unwrap(), it.next().unwrap().parse::<u64>().unwrap())
    };
    let t0 = std::time::Instant::now();
    let mut acc = Acc::new();
    let terms: &[u8] = match prop {
        "C13" => &[0],
        "C14" => &[1, 3],
        _ => &[2, 4, 0],
    };
    let mut scopes: Vec<engine_c::SmallC> = vec![];
    for &term in terms {
        for stack in 0..engine_c::n_stacks() {
            scopes.push(engine_c::SmallC { stack, term, src_vec: false, max_len });
            if engine_c::vec_stack_ok(stack) {
                scopes.push(engine_c::SmallC { stack, term, src_vec: true, max_len });
            }
        }
    }
    let (mut nscopes, mut nexhausted) = (0u64, 0u64);
    let mut per_shape: Vec<String> = vec![];
    for (k, sc) in scopes.iter().enumerate() {
        if k as u64 % sn != si {
            continue;
        }
        nscopes += 1;
        let mut prefix: Vec<u32> = vec![];
        let mut exhausted = false;
        let mut n = 0u64;
        loop {
            reset(Src::Script { v: prefix.clone(), pos: 0 }, true);
            let o = engine_c::run_small(prop, *sc);
            let (taken, arities) = (o.decisions.clone(), o.arities.clone());
            n += 1;
            let replay = format!("replay --engine Csmall --profile {prop} --scope {},{},{},{} --decisions {}", sc.stack, sc.term, sc.src_vec as u8, sc.max_len, taken.iter().map(|d| d.to_string()).collect::<Vec<_>>().join(","));
            let key = o.key.clone();
            absorb(&mut acc, prop, "C-dfs", o, replay);
            let mut k2 = taken.len();
            let mut next = taken;
            loop {
                if k2 == 0 {
                    exhausted = true;
                    break;
                }
                k2 -= 1;
                if next[k2] + 1 < arities[k2] {
                    next[k2] += 1;
                    next.truncate(k2 + 1);
                    break;
                }
            }
            if exhausted || n >= budget {
                if exhausted {
                    nexhausted += 1;
                }
                per_shape.push(format!("{}:{{\"executions\":{},\"exhausted\":{}}}", jstr(&format!("{key}/len<={max_len}")), n, exhausted));
                break;
            }
            prefix = next;
        }
    }
    let wall = t0.elapsed().as_secs_f64();
    if let Some(pth) = out {
        if pth != "-" {
            write_sigs(&format!("{pth}.sigs"), &acc.sigs);
        }
    }
    let s = summary_json(&acc, prop, "dfsc", 0, (si, sn), wall, &format!(",\"dfs_shapes\":{nscopes},\"dfs_shapes_exhausted\":{nexhausted},\"dfs_exhausted\":{},\"dfs_per_shape\":{{{}}}", nscopes == nexhausted, per_shape.join(",")));
    write_out(out, &s);
}
#[cfg(not(feature = "fc-alloc"))]
fn cmd_dfsc(_args: &[String]) {
    panic!("concurrent streams need the alloc feature");
}

/// Systematic crash-point sweep (C02): for each generated case, first run it to completion, then re-run the same
/// case and schedule with the combinator dropped after k polls for EVERY k in 0..=polls, and with a panic injected
/// at EVERY script position of EVERY leaf (engine A); engine C pipelines are cancelled after every k.
fn cmd_allk(args: &[String]) {
    let prop = arg(args, "--prop").unwrap_or("C02");
    let seed: u64 = arg(args, "--seed").unwrap_or("1").parse().expect("seed");
    let iters: u64 = arg(args, "--iters").unwrap_or("1000").parse().expect("iters");
    let out = arg(args, "--out");
    let (si, sn) = {
        let s = arg(args, "--shard").unwrap_or("0/1");
        let mut it = s.split('/');
        (it.next().unwrap().parse::<u64>().unwrap(), it.next().unwrap().parse::<u64>().unwrap())
    };
    let t0 = std::time::Instant::now();
    let mut acc = Acc::new();
    let mut p = engine_a::profile("C02", false);
    p.cancel_pct = 0;
    p.panic_pct = 0;
    p.max_n = 5;
    p.big_pct = 0;
    let (mut cases, mut cancel_runs, mut panic_runs) = (0u64, 0u64, 0u64);
    for it in 0..iters {
        let case_seed = mix(mix(seed, fnv(b"allk")), si * 1_000_003 + it * sn.max(1) + 7);
        cases += 1;
        let co = cfg!(feature = "fc-alloc") && it % 4 == 3;
        if co {
            #[cfg(feature = "fc-alloc")]
            {
                let base = engine_c::run_fault("C02", false, case_seed, it, Some(usize::MAX));
                let polls = base.root_polls;
                absorb(&mut acc, prop, "C-allk", base, format!("replay --engine C --profile C02 --tier quick --case-seed {case_seed} --sub {it} --cancel none"));
                for k in 0..=polls.min(40) {
                    let o = engine_c::run_fault("C02", false, case_seed, it, Some(k));
                    cancel_runs += 1;
                    absorb(&mut acc, prop, "C-allk", o, format!("replay --engine C --profile C02 --tier quick --case-seed {case_seed} --sub {it} --cancel {k}"));
                }
            }
            continue;
        }
        reset(Src::Rng(case_seed), true);
        let base = engine_a::run_fault(&p, false, engine_a::Fault::None);
        let (polls, lens) = (base.root_polls, base.leaf_lens.clone());
        absorb(&mut acc, prop, "A-allk", base, format!("replay --engine A --profile ALLK --case-seed {case_seed} --fault none"));
        for k in 0..=polls.min(40) {
            reset(Src::Rng(case_seed), true);
            let o = engine_a::run_fault(&p, false, engine_a::Fault::CancelAt(k));
            cancel_runs += 1;
            absorb(&mut acc, prop, "A-allk", o, format!("replay --engine A --profile ALLK --case-seed {case_seed} --fault cancel:{k}"));
        }
        for (i, l) in lens.iter().enumerate().take(8) {
            for at in 0..(*l).min(8) {
                reset(Src::Rng(case_seed), true);
                let o = engine_a::run_fault(&p, false, engine_a::Fault::PanicAt(i, at));
                panic_runs += 1;
                absorb(&mut acc, prop, "A-allk", o, format!("replay --engine A --profile ALLK --case-seed {case_seed} --fault panic:{i}:{at}"));
            }
        }
    }
    let wall = t0.elapsed().as_secs_f64();
    if let Some(pth) = out {
        if pth != "-" {
            write_sigs(&format!("{pth}.sigs"), &acc.sigs);
        }
    }
    let s = summary_json(&acc, prop, "allk", seed, (si, sn), wall, &format!(",\"allk_cases\":{cases},\"allk_cancel_points\":{cancel_runs},\"allk_panic_points\":{panic_runs}"));
    write_out(out, &s);
}

fn cmd_sigs_merge(args: &[String]) {
    let mut all: HashSet<u64> = HashSet::new();
    for f in &args[2..] {
        if let Ok(b) = std::fs::read(f) {
            for c in b.chunks_exact(8) {
                all.insert(u64::from_le_bytes(c.try_into().unwrap()));
            }
        }
    }
    println!("{}", all.len());
}

fn install_panic_hook() {
    std::panic::set_hook(Box::new(|info| {
        if info.payload().is::<child::Injected>() {
            return;
        }
        if std::env::var_os("FCV_VERBOSE_PANICS").is_some() {
            eprintln!("panic: {info}");
        }
    }));
}

/// Watchdog: a single-threaded execution that sits inside one `wake()` call for a long time is a
/// self-deadlock candidate (exit code 3, decided by deterministic replay in the driver); any other stall
/// is merely inconclusive (exit code 4).
fn install_watchdog() {
    use std::sync::atomic::Ordering;
    let secs: u64 = std::env::var("FCV_WATCHDOG_S").ok().and_then(|s| s.parse().ok()).unwrap_or(20);
    std::thread::spawn(move || {
        let mut last = child::PROGRESS.load(Ordering::Relaxed);
        let mut still = 0u64;
        loop {
            std::thread::sleep(std::time::Duration::from_secs(1));
            let now = child::PROGRESS.load(Ordering::Relaxed);
            if now == last {
                still += 1;
            } else {
                still = 0;
                last = now;
            }
            if still >= secs {
                let in_wake = child::IN_WAKE.load(Ordering::Relaxed);
                eprintln!("WATCHDOG: no progress for {secs}s (inside wake(): {in_wake})");
                std::process::exit(if in_wake { 3 } else { 4 });
            }
        }
    });
}

fn main() {
    let args: Vec<String> = std::env::args().collect();
    install_panic_hook();
    let cmd = args.get(1).map(|s| s.as_str()).unwrap_or("");
    if cmd != "sigs-merge" && !cfg!(miri) {
        install_watchdog();
    }
    match cmd {
        "run" => cmd_run(&args),
        "replay" => cmd_replay(&args),
        "dfs" => cmd_dfs(&args),
        "allk" => cmd_allk(&args),
        "dfsb" => cmd_dfsb(&args),
        "dfsc" => cmd_dfsc(&args),
        "sigs-merge" => cmd_sigs_merge(&args),
        "config" => println!("{}", config_name()),
        _ => {
            eprintln!("usage: fcv run|replay|dfs|threads|sigs-merge ...");
            std::process::exit(2);
        }
    }
}
