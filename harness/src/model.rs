//! Reference models (one small deterministic function per family, evaluated on what the direct children
//! actually returned during each poll of a node) and the schedule invariants I1, I2, I6.

use crate::world::*;

fn fmt_out(flag: u8, parts: &[u64]) -> String {
    let p: Vec<String> = parts.iter().map(|v| format!("v{v}")).collect();
    match flag {
        0 => "Pending".into(),
        1 => format!("Ready(Ok[{}])", p.join(",")),
        2 => format!("Ready(Err[{}])", p.join(",")),
        3 => format!("Some[{}]", p.join(",")),
        _ => "None/End".into(),
    }
}

/// Called at the end of every poll of node `cid`. `flag`/`parts` = what the real combinator returned
/// (0 pending, 1 ok, 2 err, 3 item, 4 end; ids by position).
pub fn check_node_poll(w: &mut World, cid: Cid, flag: u8, parts: &[u64]) {
    let fam = w.ch[cid].fam;
    if fam == Fam::Co {
        return;
    }
    if w.post_final {
        // what a finished stream returns when polled again is unspecified; only child polls are judged (child.rs)
        w.ch[cid].model.cur.clear();
        return;
    }
    let n = w.ch[cid].model.slots.len();
    let cur = std::mem::take(&mut w.ch[cid].model.cur);
    let prop = fam.prop();
    w.st.model_polls_checked += 1;
    let mut msgs: Vec<String> = vec![];
    let mut fair: Vec<String> = vec![];
    let always: Vec<usize> = w.ch[cid].kids.iter().enumerate().filter(|(_, k)| w.ch[**k].always_ready).map(|(i, _)| i).collect();
    let was_finished = w.ch[cid].model.finished;
    // wait_until over a non-fused inner stream: the inner's `None` is not final if the consumer polls again
    let inner_resumes = fam == Fam::WaitS && w.ch[cid].kids.first().map(|k| w.resumes(*k)).unwrap_or(false);
    let m = &mut w.ch[cid].model;
    // expected (flag, parts)
    let mut exp: (u8, Vec<u64>) = (0, vec![]);
    let mut decided_at: Option<usize> = None; // index in `cur` after which nothing may be polled
    match fam {
        Fam::Join => {
            for (i, r) in &cur {
                if let Res::Ok(v) | Res::Err(v) = r {
                    m.slots[*i] = Some(*v);
                }
            }
            if m.slots.iter().all(|s| s.is_some()) {
                exp = (1, m.slots.iter().map(|s| s.unwrap()).collect());
                m.finished = true;
            }
        }
        Fam::TryJoin => {
            for (k, (i, r)) in cur.iter().enumerate() {
                match r {
                    Res::Ok(v) => m.slots[*i] = Some(*v),
                    Res::Err(v) => {
                        exp = (2, vec![*v]);
                        decided_at = Some(k);
                        m.finished = true;
                        break;
                    }
                    _ => {}
                }
            }
            if decided_at.is_none() && m.slots.iter().all(|s| s.is_some()) {
                exp = (1, m.slots.iter().map(|s| s.unwrap()).collect());
                m.finished = true;
            }
        }
        Fam::Race => {
            for (k, (_, r)) in cur.iter().enumerate() {
                match r {
                    Res::Ok(v) => {
                        exp = (1, vec![*v]);
                        decided_at = Some(k);
                    }
                    Res::Err(v) => {
                        exp = (2, vec![*v]);
                        decided_at = Some(k);
                    }
                    _ => {}
                }
                if decided_at.is_some() {
                    m.finished = true;
                    break;
                }
            }
        }
        Fam::RaceOk => {
            for (k, (i, r)) in cur.iter().enumerate() {
                match r {
                    Res::Ok(v) => {
                        exp = (1, vec![*v]);
                        decided_at = Some(k);
                        m.finished = true;
                        break;
                    }
                    Res::Err(v) => m.slots[*i] = Some(*v),
                    _ => {}
                }
            }
            if decided_at.is_none() && m.slots.iter().all(|s| s.is_some()) {
                exp = (2, m.slots.iter().map(|s| s.unwrap()).collect());
                m.finished = true;
            }
        }
        Fam::Merge | Fam::SGroup => {
            for (k, (i, r)) in cur.iter().enumerate() {
                match r {
                    Res::Item(v) => {
                        exp = (3, vec![*v]);
                        decided_at = Some(k);
                        m.prov.push(*i);
                        m.yielded_from[*i].push(*v);
                        break;
                    }
                    Res::End => m.ended[*i] = true,
                    _ => {}
                }
            }
            if decided_at.is_none() && m.ended.iter().all(|e| *e) {
                exp = (4, vec![]);
                m.finished = true;
            }
            // C17: an input that always has an item is served within any n consecutive yields
            if fam == Fam::Merge && flag == 3 && n > 0 {
                for a in &always {
                    let run = m.prov.iter().rev().take_while(|p| **p != *a).count();
                    if run >= n {
                        fair.push(format!("merge of {n} inputs yielded {run} consecutive items without serving input {a}, which has an item whenever polled"));
                    }
                }
            }
        }
        Fam::FGroup => {
            let empty_at_start = m.slots.iter().all(|s| s.is_some());
            for (k, (i, r)) in cur.iter().enumerate() {
                if let Res::Ok(v) | Res::Err(v) = r {
                    exp = (3, vec![*v]);
                    m.slots[*i] = Some(*v);
                    decided_at = Some(k);
                    break;
                }
            }
            if empty_at_start {
                exp = (4, vec![]);
                m.finished = true;
            }
        }
        Fam::Zip => {
            for (k, (i, r)) in cur.iter().enumerate() {
                match r {
                    Res::Item(v) => {
                        m.row[*i] = Some(*v);
                        m.taken[*i] += 1;
                        if m.row.iter().all(|s| s.is_some()) {
                            exp = (3, m.row.iter().map(|s| s.unwrap()).collect());
                            for s in m.row.iter_mut() {
                                *s = None;
                            }
                            m.rows += 1;
                            decided_at = Some(k);
                            break;
                        }
                    }
                    Res::End => {
                        exp = (4, vec![]);
                        decided_at = Some(k);
                        m.finished = true;
                        break;
                    }
                    _ => {}
                }
            }
            for (i, t) in m.taken.iter().enumerate() {
                if *t > m.rows + 1 {
                    msgs.push(format!("zip took {t} items from input {i} but only {} rows were yielded", m.rows));
                }
            }
        }
        Fam::Chain => {
            if n == 0 {
                exp = (4, vec![]);
                m.finished = true;
            }
            for (k, (_, r)) in cur.iter().enumerate() {
                match r {
                    Res::Item(v) => {
                        exp = (3, vec![*v]);
                        decided_at = Some(k);
                        break;
                    }
                    Res::End => {
                        m.cursor += 1;
                        if m.cursor >= n {
                            exp = (4, vec![]);
                            decided_at = Some(k);
                            m.finished = true;
                            break;
                        }
                    }
                    Res::Pend => {
                        decided_at = Some(k);
                        break;
                    }
                    _ => {}
                }
            }
        }
        Fam::WaitF | Fam::WaitS => {
            let mut inner_polled = false;
            for (k, (i, r)) in cur.iter().enumerate() {
                if *i == 1 {
                    if m.deadline_done {
                        msgs.push("wait_until polled the deadline again after it resolved".into());
                    }
                    match r {
                        Res::Pend => {
                            decided_at = Some(k);
                            break;
                        }
                        _ => m.deadline_done = true,
                    }
                } else {
                    inner_polled = true;
                    exp = match r {
                        Res::Ok(v) => (1, vec![*v]),
                        Res::Err(v) => (2, vec![*v]),
                        Res::Item(v) => (3, vec![*v]),
                        Res::End => (4, vec![]),
                        _ => (0, vec![]),
                    };
                    if matches!(r, Res::Ok(_) | Res::Err(_) | Res::End) && !inner_resumes {
                        m.finished = true;
                    }
                    decided_at = Some(k);
                    break;
                }
            }
            if m.deadline_done && !inner_polled {
                msgs.push("wait_until did not poll the inner in a poll in which the deadline was (already) resolved".into());
            }
        }
        Fam::Co => {}
    }
    if n == 0 && matches!(fam, Fam::Join | Fam::TryJoin) {
        exp = (1, vec![]);
    }
    if let Some(k) = decided_at {
        if k + 1 != cur.len() {
            msgs.push(format!("another child was polled after the poll's outcome was decided (child results this poll: {} entries, decided at #{k})", cur.len()));
        }
    }
    if was_finished {
        msgs.push("polled its children again after it had produced its final result".into());
    }
    if (flag, parts) != (exp.0, &exp.1[..]) {
        msgs.push(format!("{} returned {}, reference model says {} (children this poll: {:?})", fam.name(), fmt_out(flag, parts), fmt_out(exp.0, &exp.1), cur.iter().map(|(i, r)| format!("#{i}:{}", fmt_res(r))).collect::<Vec<_>>()));
    }
    for msg in msgs {
        w.violate(&[prop], format!("node {cid}: {msg}"));
    }
    for msg in fair {
        w.violate(&["C17"], format!("node {cid}: {msg}"));
    }
    if fam == Fam::Merge && flag == 3 && !always.is_empty() {
        w.st.fairness_windows += 1;
    }
}

fn is_leaf(c: &Child) -> bool {
    matches!(c.kind, Kind::LeafFut | Kind::LeafStr)
}

/// I1 — no lost wake-up, checked at every quiescent point.
pub fn i1_check(w: &mut World, tag: &str) {
    w.st.quiescent_checks += 1;
    if w.root_last != RootLast::Pending {
        return;
    }
    let mut bad = vec![];
    let mut obligations = 0;
    for i in 0..w.ch.len() {
        let c = &w.ch[i];
        if !is_leaf(c) || !c.created || c.dropped > 0 || c.last != Last::Pending || !c.latest_woken {
            continue;
        }
        if w.inactive(i) {
            w.st.held_exemptions += 1;
            continue;
        }
        obligations += 1;
        if !w.parent_woken {
            bad.push(i);
        }
    }
    w.st.i1_obligations += obligations;
    for i in bad {
        let pc = w.parent_cur;
        w.violate(&["C01"], format!("lost wake-up: child {i} returned Pending and its latest waker was invoked, the combinator is Pending, but the task that polled it last (parent waker w{pc}) was not woken [{tag}]"));
    }
}

/// I2 — a Pending result is justified: every owned, not-held-back leaf was polled and sits at Pending/Done.
pub fn i2_check(w: &mut World) {
    let mut v: Vec<(Vec<&'static str>, String)> = vec![];
    for i in 0..w.ch.len() {
        let c = &w.ch[i];
        if !is_leaf(c) || !c.created || c.dropped > 0 || c.role != 0 {
            continue;
        }
        if w.inactive(i) {
            continue;
        }
        if c.polls == 0 {
            // a child that is never started can never be seen to resolve / yield: the owning family's own
            // promise (resolve with / yield whatever its children produce) is broken as well
            // (C01 as well: a child that was never started has registered no waker, so no wake-up will ever come)
            let mut props = vec!["C20", "C01"];
            if let Some((p, _)) = c.parent {
                if w.ch[p].fam != Fam::Co && w.ch[p].kind == Kind::Node {
                    props.push(w.ch[p].fam.prop());
                    // C20 excludes the sequential combinators: there the *current* input (the only one that is not
                    // held back) left unpolled at a Pending return is a lost-progress defect of that combinator
                    if matches!(w.ch[p].fam, Fam::Chain | Fam::WaitF | Fam::WaitS) {
                        props.remove(0);
                    }
                }
            }
            v.push((props, format!("child {i} has never been polled although its combinator returned Pending")));
        } else if !matches!(c.last, Last::Pending | Last::Done) {
            v.push((vec!["C01"], format!("combinator returned Pending while child {i} is left at {:?} (it can make progress that no wake-up will trigger)", c.last)));
        }
    }
    for (p, m) in v {
        w.violate(&p, m);
    }
}

/// I6 — progress under a wake-only executor: at quiescence with the root Pending and not woken, every
/// owned active leaf must be finished or legitimately blocked forever.
pub fn i6_check(w: &mut World) {
    if w.root_last != RootLast::Pending || w.parent_woken {
        return;
    }
    let any_never = w.ch.iter().any(|c| is_leaf(c) && c.never);
    let mut v: Vec<(Vec<&'static str>, String)> = vec![];
    let mut blocked_legit = false;
    // a combinator that is stuck although its children made the progress that permits it to continue also fails
    // to deliver what its own property promises (resolve / yield / end): attribute to the owning family as well
    let owner_prop = |w: &World, i: Cid| -> Option<&'static str> {
        match w.ch[i].parent {
            Some((p, _)) if w.ch[p].fam != Fam::Co => Some(w.ch[p].fam.prop()),
            _ => None,
        }
    };
    let with_owner = |w: &World, i: Cid, mut props: Vec<&'static str>| -> Vec<&'static str> {
        if let Some(p) = owner_prop(w, i) {
            if !props.contains(&p) {
                props.push(p);
            }
        }
        props
    };
    for i in 0..w.ch.len() {
        let c = &w.ch[i];
        if !is_leaf(c) || !c.created || c.dropped > 0 {
            continue;
        }
        if w.inactive(i) {
            continue;
        }
        match c.last {
            Last::Done => {}
            Last::Pending => {
                let at_never = c.pc > 0 && matches!(c.script.get(c.pc - 1), Some(Step::PendNever) | None) && !c.always_ready;
                if c.latest_woken || c.later_outstanding {
                    let props: Vec<&'static str> = if any_never && !c.never { vec!["C01", "C20"] } else { vec!["C01"] };
                    v.push((with_owner(w, i, props), format!("stuck: child {i} was woken after its last poll but is never polled again; the combinator is Pending with no wake-up outstanding")));
                } else if at_never {
                    blocked_legit = true;
                } else {
                    // Pending without a registered wake: only happens for PendSelf whose wake was consumed
                    let props: Vec<&'static str> = if any_never && !c.never { vec!["C01", "C20"] } else { vec!["C01"] };
                    v.push((with_owner(w, i, props), format!("stuck: child {i} self-woke during its last poll and was not polled again")));
                }
            }
            Last::Item if w.root.is_none() && i == 0 => {
                // engine C: the source of a concurrent stream is legitimately left alone while the consumer
                // applies back-pressure; whether the operation as a whole may be Pending is decided below
            }
            Last::Item => {
                let props: Vec<&'static str> = if any_never { vec!["C01", "C20"] } else { vec!["C01"] };
                v.push((with_owner(w, i, props), format!("stuck: stream child {i} yielded an item and is never polled again although the combinator is Pending")));
            }
            Last::Never => {
                v.push((with_owner(w, i, vec!["C01", "C20"]), format!("stuck: child {i} was never polled although the combinator is Pending with no wake-up outstanding")));
            }
        }
    }
    if v.is_empty() && !blocked_legit {
        // every active leaf is finished, yet the combinator did not resolve: the per-poll model has already
        // reported the poll in which it should have; keep a generic note for engines without node models
        if w.root.is_none() {
            v.push((vec!["C01"], "stuck: no child is blocked forever, yet the operation is Pending with no wake-up outstanding".into()));
        }
    }
    for (p, m) in v {
        w.violate(&p, m);
    }
}
