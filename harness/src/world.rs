//! Shared monitor state: event log, scripted-child table, tracked-value registry, decision source.
//!
//! Everything the single-threaded engines (A, B, C) observe goes through the thread-local `World`.
//! RULE: never call into the library, a waker, or drop a `Val`/child while a world borrow is held.

use std::cell::RefCell;
use std::collections::BTreeMap;
use std::task::Waker;

pub type Cid = usize;

pub const MAGIC: u64 = 0x5AFE_C0DE_F00D_0001;

// ------------------------------------------------------------------------------------------------
// steps / results

#[derive(Clone, Copy, Debug, PartialEq, Eq)]
pub enum Step {
    /// return Pending and invoke the waker just received, from inside the poll
    PendSelf,
    /// return Pending; the executor fires the waker some time later
    PendLater,
    /// return Pending; nobody ever fires the waker on the child's behalf
    PendNever,
    Ok,
    Err,
    Item,
    End,
    /// unwind out of the poll with a marker payload (C02 workloads only)
    Panic,
}

/// What a child (leaf or wrapped inner combinator) returned from one poll.
#[derive(Clone, Debug, PartialEq, Eq)]
pub enum Res {
    Pend,
    Ok(u64),
    Err(u64),
    Item(u64),
    End,
    Panicked,
}
impl Res {
    pub fn kind(&self) -> u8 {
        match self {
            Res::Pend => 0,
            Res::Ok(_) => 1,
            Res::Err(_) => 2,
            Res::Item(_) => 3,
            Res::End => 4,
            Res::Panicked => 5,
        }
    }
}

#[derive(Clone, Copy, Debug, PartialEq, Eq)]
pub enum Last {
    Never,
    Pending,
    Item,
    Done,
}

#[derive(Clone, Copy, Debug, PartialEq, Eq)]
pub enum Phase {
    Idle,
    Constructing,
    Polling,
    GroupOp,
    Dropping,
}

#[derive(Clone, Copy, Debug, PartialEq, Eq)]
pub enum RootLast {
    NotPolled,
    Pending,
    Item,
    Final,
    Panicked,
}

#[derive(Clone, Copy, Debug, PartialEq, Eq, Hash, PartialOrd, Ord)]
pub enum Fam {
    Join,
    TryJoin,
    Race,
    RaceOk,
    Merge,
    Zip,
    Chain,
    FGroup,
    SGroup,
    WaitF,
    WaitS,
    /// concurrent-stream pipeline driven by engine C (no per-node model; engine C has its own oracles)
    Co,
}
impl Fam {
    pub fn name(self) -> &'static str {
        match self {
            Fam::Join => "join",
            Fam::TryJoin => "try_join",
            Fam::Race => "race",
            Fam::RaceOk => "race_ok",
            Fam::Merge => "merge",
            Fam::Zip => "zip",
            Fam::Chain => "chain",
            Fam::FGroup => "future_group",
            Fam::SGroup => "stream_group",
            Fam::WaitF => "wait_until_future",
            Fam::WaitS => "wait_until_stream",
            Fam::Co => "co",
        }
    }
    pub fn from_name(s: &str) -> Option<Fam> {
        ALL_FAMS.iter().cloned().find(|f| f.name() == s)
    }
    /// does the combinator itself implement Stream?
    pub fn is_stream(self) -> bool {
        matches!(self, Fam::Merge | Fam::Zip | Fam::Chain | Fam::FGroup | Fam::SGroup | Fam::WaitS)
    }
    /// does it take stream children? (WaitS: child 0 is a stream, child 1 a future)
    pub fn stream_kids(self) -> bool {
        matches!(self, Fam::Merge | Fam::Zip | Fam::Chain | Fam::SGroup)
    }
    /// C16 names these six families
    pub fn selective(self) -> bool {
        matches!(self, Fam::Join | Fam::TryJoin | Fam::Merge | Fam::Zip | Fam::FGroup | Fam::SGroup)
    }
    /// the property whose reference model describes this family's outputs
    pub fn prop(self) -> &'static str {
        match self {
            Fam::Join => "C04",
            Fam::TryJoin => "C05",
            Fam::Race => "C06",
            Fam::RaceOk => "C07",
            Fam::Merge => "C08",
            Fam::Zip => "C09",
            Fam::Chain => "C10",
            Fam::FGroup => "C11",
            Fam::SGroup => "C12",
            Fam::WaitF | Fam::WaitS => "C19",
            Fam::Co => "C13",
        }
    }
}
pub const ALL_FAMS: [Fam; 12] = [
    Fam::Join,
    Fam::TryJoin,
    Fam::Race,
    Fam::RaceOk,
    Fam::Merge,
    Fam::Zip,
    Fam::Chain,
    Fam::FGroup,
    Fam::SGroup,
    Fam::WaitF,
    Fam::WaitS,
    Fam::Co,
];

#[derive(Clone, Copy, Debug, PartialEq, Eq, Hash, PartialOrd, Ord)]
pub enum Cont {
    Tuple,
    Array,
    Vec,
    Ext,
    Group,
}
impl Cont {
    pub fn name(self) -> &'static str {
        match self {
            Cont::Tuple => "tuple",
            Cont::Array => "array",
            Cont::Vec => "vec",
            Cont::Ext => "ext",
            Cont::Group => "group",
        }
    }
    pub fn from_name(s: &str) -> Option<Cont> {
        [Cont::Tuple, Cont::Array, Cont::Vec, Cont::Ext, Cont::Group].into_iter().find(|c| c.name() == s)
    }
}

// ------------------------------------------------------------------------------------------------
// events

#[derive(Clone, Copy, Debug, PartialEq, Eq)]
pub enum FireCtx {
    Between,
    MidPoll(Cid),
    AfterDrop,
    SelfNow,
    /// from inside the destructor of this child
    InDrop(Cid),
}

#[derive(Clone, Debug)]
pub enum Ev {
    ExecPoll { n: usize, waker: usize, spurious: bool },
    ExecRet(Res),
    Poll(Cid),
    Ret(Cid, Res),
    Fire { c: Cid, widx: usize, latest: bool, by_value: bool, ctx: FireCtx },
    ParentWake { waker: usize, current: bool },
    NodeWake(Cid),
    DropChild(Cid),
    DropRoot,
    DropRootDone,
    Op(String),
    Note(String),
}

// ------------------------------------------------------------------------------------------------
// per-node model state (see model.rs)

#[derive(Clone, Debug, Default)]
pub struct NodeModel {
    /// join/try_join: value per position; race_ok: error per position
    pub slots: Vec<Option<u64>>,
    /// merge/chain/groups: which inputs ended; zip: unused
    pub ended: Vec<bool>,
    /// zip row buffer
    pub row: Vec<Option<u64>>,
    /// chain cursor
    pub cursor: usize,
    /// a final result was produced
    pub finished: bool,
    /// wait_until: deadline resolved
    pub deadline_done: bool,
    /// results of direct children during the node's current poll: (index in parent, result)
    pub cur: Vec<(usize, Res)>,
    /// zip: number of rows yielded; per-input items taken
    pub rows: usize,
    pub taken: Vec<usize>,
    /// merge fairness (C17): provenance (input index) of the items yielded so far
    pub prov: Vec<usize>,
    /// per input: list of items yielded so far (order oracle)
    pub yielded_from: Vec<Vec<u64>>,
    /// hold-back state maintained online, as each direct child returns (the per-poll model above is
    /// evaluated at the end of the node's poll): chain cursor, zip slots filled, deadline resolved
    pub on_cursor: usize,
    pub on_row: Vec<bool>,
    pub on_deadline: bool,
}

#[derive(Clone, Copy, Debug, PartialEq, Eq)]
pub enum Kind {
    LeafFut,
    LeafStr,
    Node,
}

pub struct Child {
    pub kind: Kind,
    pub fam: Fam,
    pub cont: Cont,
    pub kids: Vec<Cid>,
    pub parent: Option<(Cid, usize)>,
    pub script: Vec<Step>,
    pub pc: usize,
    pub polls: usize,
    pub last: Last,
    pub wakers: Vec<Waker>,
    /// any waker ever handed to this child (or, in a group, to an earlier occupant of its slot) was
    /// invoked since the child's previous poll started
    pub any_woken: bool,
    /// the waker handed in the most recent poll was invoked since that poll started
    pub latest_woken: bool,
    pub later_outstanding: bool,
    pub created: bool,
    pub dropped: u32,
    /// produced items / result ids, in order
    pub produced: Vec<u64>,
    /// always has an item (C17 subject)
    pub always_ready: bool,
    pub never: bool,
    /// group slot (key index) the child lives / lived in
    pub slot: Option<usize>,
    pub model: NodeModel,
    /// engine C: role of a dynamically created future (0 = none, 1 = terminal closure future, 2 = map future)
    pub role: u8,
    pub item: u64,
    /// engine C: an abandoned source is exempt from I1/I6
    pub exempt: bool,
    /// stream leaf whose script continues after its first `End` (C19: wait_until must stay transparent)
    pub resumable: bool,
    /// when this child is dropped it invokes a waker handed to itself or to a sibling (a sender whose drop wakes
    /// the receiver): destructors run inside polls, removals and the combinator's drop
    pub wake_on_drop: bool,
    /// what a stream leaf reports from size_hint(): 0 = (0, None), 1 = exact, 2 = (rem/2, Some(rem+3)) — always legal
    pub hint_mode: u8,
    /// leaf type WITHOUT drop glue (`needs_drop::<Fut>() == false`): its drop cannot be observed, its values can
    pub plain: bool,
    /// engine T / C16: announced wake() calls seen, and calls in flight, when this child's previous poll started
    pub t_count_at_poll: u64,
    pub t_inflight_at_poll: u32,
    pub t_count_before_prev: u64,
    pub t_inflight_before_prev: u32,
}
impl Child {
    pub fn leaf(kind: Kind, script: Vec<Step>) -> Child {
        let never = script.contains(&Step::PendNever);
        Child {
            kind,
            fam: Fam::Join,
            cont: Cont::Vec,
            kids: vec![],
            parent: None,
            script,
            pc: 0,
            polls: 0,
            last: Last::Never,
            wakers: vec![],
            any_woken: false,
            latest_woken: false,
            later_outstanding: false,
            created: false,
            dropped: 0,
            produced: vec![],
            always_ready: false,
            never,
            slot: None,
            model: NodeModel::default(),
            role: 0,
            item: 0,
            exempt: false,
            resumable: false,
            wake_on_drop: false,
            hint_mode: 0,
            plain: false,
            t_count_at_poll: 0,
            t_inflight_at_poll: 0,
            t_count_before_prev: 0,
            t_inflight_before_prev: 0,
        }
    }
    pub fn node(fam: Fam, cont: Cont, n: usize) -> Child {
        let mut c = Child::leaf(Kind::Node, vec![]);
        c.fam = fam;
        c.cont = cont;
        c.model.slots = vec![None; n];
        c.model.ended = vec![false; n];
        c.model.row = vec![None; n];
        c.model.taken = vec![0; n];
        c.model.yielded_from = vec![vec![]; n];
        c.model.on_row = vec![false; n];
        c
    }
}

pub struct ValRec {
    /// 1 = live, 2 = dropped
    pub state: u8,
    pub producer: Cid,
    /// for values packed by a Tap node: ids of the values the inner combinator returned
    pub parts: Option<Box<[u64]>>,
}

#[derive(Clone, Debug)]
pub struct Violation {
    pub props: Vec<&'static str>,
    pub msg: String,
}

// ------------------------------------------------------------------------------------------------
// decision source

pub enum Src {
    Rng(u64),
    /// replay / DFS: scripted decisions, 0 after the script is exhausted; arities recorded
    Script { v: Vec<u32>, pos: usize },
}

#[derive(Default, Clone, Debug)]
pub struct Stats {
    pub child_polls: u64,
    pub child_pending: u64,
    pub fires_between: u64,
    pub fires_midpoll: u64,
    pub fires_stale: u64,
    pub fires_selfnow: u64,
    pub fires_after_done: u64,
    pub fires_after_drop: u64,
    pub fires_by_value: u64,
    pub fires_repeated: u64,
    pub parent_wakes_current: u64,
    pub parent_wakes_stale: u64,
    pub root_polls: u64,
    pub root_pending: u64,
    pub spurious_polls: u64,
    pub reused_parent_waker: u64,
    pub cancels: u64,
    pub panics_injected: u64,
    pub values_created: u64,
    pub values_dropped: u64,
    pub children_created: u64,
    pub node_polls: u64,
    pub node_wakes: u64,
    pub group_inserts: u64,
    pub group_reuse_inserts: u64,
    pub group_removes: u64,
    pub group_reserves: u64,
    pub group_grows: u64,
    pub group_none: u64,
    pub group_refills: u64,
    pub held_exemptions: u64,
    pub quiescent_checks: u64,
    pub i1_obligations: u64,
    pub i4_obligations: u64,
    pub model_polls_checked: u64,
    pub never_children: u64,
    pub co_closure_calls: u64,
    pub co_max_gauge: u64,
    pub co_gauge_checks: u64,
    pub co_errors: u64,
    pub fairness_windows: u64,
    pub thread_fires: u64,
    pub thread_fires_stale: u64,
    pub thread_root_wakes: u64,
    pub thread_root_wakes_stale: u64,
    pub thread_waits: u64,
    pub polls_after_none: u64,
    pub vec_spare_capacity: u64,
    pub post_final_polls: u64,
    pub post_final_panics: u64,
    pub fires_in_drop: u64,
    pub thread_rendezvous: u64,
    pub plain_cases: u64,
}
impl Stats {
    pub fn fields(&self) -> Vec<(&'static str, u64)> {
        vec![
            ("child_polls", self.child_polls),
            ("child_pending_returns", self.child_pending),
            ("fires_between_polls", self.fires_between),
            ("fires_mid_poll", self.fires_midpoll),
            ("fires_stale_waker", self.fires_stale),
            ("fires_self_wake_in_poll", self.fires_selfnow),
            ("fires_after_child_done", self.fires_after_done),
            ("fires_after_combinator_drop", self.fires_after_drop),
            ("fires_by_value", self.fires_by_value),
            ("fires_repeated", self.fires_repeated),
            ("parent_wakes_current", self.parent_wakes_current),
            ("parent_wakes_stale", self.parent_wakes_stale),
            ("root_polls", self.root_polls),
            ("root_pending_returns", self.root_pending),
            ("spurious_polls", self.spurious_polls),
            ("reused_parent_waker", self.reused_parent_waker),
            ("cancellations", self.cancels),
            ("panics_injected", self.panics_injected),
            ("values_created", self.values_created),
            ("values_dropped", self.values_dropped),
            ("children_created", self.children_created),
            ("inner_node_polls", self.node_polls),
            ("inner_node_wakes", self.node_wakes),
            ("group_inserts", self.group_inserts),
            ("group_slot_reuse_inserts", self.group_reuse_inserts),
            ("group_removes", self.group_removes),
            ("group_reserves", self.group_reserves),
            ("group_capacity_grows", self.group_grows),
            ("group_none_returns", self.group_none),
            ("group_refills_after_none", self.group_refills),
            ("held_back_exemptions", self.held_exemptions),
            ("quiescent_checks", self.quiescent_checks),
            ("i1_wake_obligations_checked", self.i1_obligations),
            ("i4_repoll_obligations_checked", self.i4_obligations),
            ("model_polls_checked", self.model_polls_checked),
            ("never_completing_children", self.never_children),
            ("co_closure_calls", self.co_closure_calls),
            ("co_max_live_closure_futures", self.co_max_gauge),
            ("co_limit_checks", self.co_gauge_checks),
            ("co_errors_returned", self.co_errors),
            ("fairness_windows_checked", self.fairness_windows),
            ("thread_fires_from_other_threads", self.thread_fires),
            ("thread_fires_stale_or_after_drop", self.thread_fires_stale),
            ("thread_root_wakes_current", self.thread_root_wakes),
            ("thread_root_wakes_stale", self.thread_root_wakes_stale),
            ("thread_main_waits", self.thread_waits),
            ("thread_polls_started_together_with_a_wake_call", self.thread_rendezvous),
            ("wait_until_streams_polled_on_after_none", self.polls_after_none),
            ("fires_from_child_destructors", self.fires_in_drop),
            ("vec_inputs_with_spare_capacity", self.vec_spare_capacity),
            ("cases_with_children_without_drop_glue", self.plain_cases),
            ("stream_polls_after_final_none", self.post_final_polls),
            ("stream_polls_after_final_none_that_panicked_by_design", self.post_final_panics),
        ]
    }
    pub fn add(&mut self, o: &Stats) {
        let a = self.fields();
        let _ = a;
        macro_rules! add { ($($f:ident),*) => { $( self.$f += o.$f; )* } }
        add!(
            child_polls, child_pending, fires_between, fires_midpoll, fires_stale, fires_selfnow, fires_after_done,
            fires_after_drop, fires_by_value, fires_repeated, parent_wakes_current, parent_wakes_stale, root_polls,
            root_pending, spurious_polls, reused_parent_waker, cancels, panics_injected, values_created,
            values_dropped, children_created, node_polls, node_wakes, group_inserts, group_reuse_inserts,
            group_removes, group_reserves, group_grows, group_none, group_refills, held_exemptions,
            quiescent_checks, i1_obligations, i4_obligations, model_polls_checked, never_children,
            co_closure_calls, co_gauge_checks, co_errors, fairness_windows, thread_fires, thread_fires_stale,
            thread_root_wakes, thread_root_wakes_stale, thread_waits, polls_after_none, vec_spare_capacity,
            post_final_polls, post_final_panics, fires_in_drop, thread_rendezvous, plain_cases
        );
        self.co_max_gauge = self.co_max_gauge.max(o.co_max_gauge);
    }
}

// ------------------------------------------------------------------------------------------------

pub struct World {
    pub src: Src,
    pub arities: Vec<u32>,
    pub taken: Vec<u32>,
    pub record_decisions: bool,
    pub ch: Vec<Child>,
    pub vals: Vec<ValRec>,
    pub log: Vec<Ev>,
    pub keep_log: bool,
    pub sig: u64,
    pub phase: Phase,
    /// id of the parent waker presented in the current/most recent root poll
    pub parent_cur: usize,
    pub parent_woken: bool,
    pub root_last: RootLast,
    pub root_polls: usize,
    pub viol: Vec<Violation>,
    /// library built with the std feature (sub-waker strategy) => C16 applies
    pub std_cfg: bool,
    pub midfire_pct: u32,
    pub inject_panic: bool,
    pub st: Stats,
    /// cid currently being polled (innermost), for FireCtx
    pub poll_stack: Vec<Cid>,
    /// group engines: slot -> live child
    pub live_slot: BTreeMap<usize, Cid>,
    /// engine C bookkeeping
    pub co: CoState,
    /// root cid for I-checks (None for engines without a node tree)
    pub root: Option<Cid>,
    /// the poll in progress unwound with an injected panic
    pub injected_seen: bool,
    /// engine T: wakers of `PendLater` steps are handed to other threads through this table
    pub threaded: Option<std::sync::Arc<crate::child::TShared>>,
    /// small-scope DFS sweep: spend no decisions on variations that do not change the library's control flow
    pub small_mode: bool,
    /// the consumer is polling a stream again after its final `None`: reference models are off, only the
    /// poll-discipline monitor (I3) on the children stays on
    pub post_final: bool,
    /// mid-poll cross fires still allowed in this execution (bounded: with pass-through wakers and hundreds of
    /// children an unbounded supply re-wakes the task in every poll and the execution never quiesces)
    pub midfire_left: u32,
}

#[derive(Default, Debug, Clone)]
pub struct CoState {
    pub gauge: usize,
    pub max_gauge: usize,
    pub limit: usize,
    pub limit_applies: bool,
    pub first_err_at: Option<usize>,
    pub errs: Vec<u64>,
    pub created: Vec<(u8, u64, Cid)>,
    pub src_items_after_err: usize,
    pub idx_mismatch: Vec<String>,
}

impl World {
    /// a resumable stream leaf that still has script left (its `End` was not its last word)
    pub fn resumes(&self, c: Cid) -> bool {
        let ch = &self.ch[c];
        ch.resumable && ch.pc < ch.script.len() && ch.dropped == 0
    }
    pub fn new() -> World {
        World {
            src: Src::Rng(1),
            arities: vec![],
            taken: vec![],
            record_decisions: false,
            ch: vec![],
            vals: vec![],
            log: vec![],
            keep_log: true,
            sig: 0xcbf29ce484222325,
            phase: Phase::Idle,
            parent_cur: 0,
            parent_woken: false,
            root_last: RootLast::NotPolled,
            root_polls: 0,
            viol: vec![],
            std_cfg: cfg!(feature = "fc-std"),
            midfire_pct: 25,
            inject_panic: false,
            st: Stats::default(),
            poll_stack: vec![],
            live_slot: BTreeMap::new(),
            co: CoState::default(),
            root: None,
            injected_seen: false,
            threaded: None,
            small_mode: false,
            post_final: false,
            midfire_left: 48,
        }
    }
    fn rnd(&mut self) -> u64 {
        match &mut self.src {
            Src::Rng(s) => {
                *s ^= *s << 13;
                *s ^= *s >> 7;
                *s ^= *s << 17;
                *s
            }
            Src::Script { .. } => 0,
        }
    }
    /// uniform choice in 0..n (n >= 1)
    pub fn below(&mut self, n: usize) -> usize {
        debug_assert!(n >= 1);
        if n <= 1 {
            return 0;
        }
        let r = match &mut self.src {
            Src::Rng(_) => (self.rnd() % n as u64) as usize,
            Src::Script { v, pos } => {
                let x = v.get(*pos).cloned().unwrap_or(0) as usize;
                *pos += 1;
                if x < n {
                    x
                } else {
                    x % n
                }
            }
        };
        if self.record_decisions {
            self.arities.push(n as u32);
            self.taken.push(r as u32);
        }
        r
    }
    pub fn chance(&mut self, pct: u32) -> bool {
        if pct == 0 {
            return false;
        }
        if pct >= 100 {
            return true;
        }
        match self.src {
            // in scripted (DFS) mode a probabilistic choice is a binary decision
            Src::Script { .. } => self.below(2) == 1,
            Src::Rng(_) => (self.rnd() % 100) < pct as u64,
        }
    }
    pub fn ev(&mut self, e: Ev) {
        // interleaving signature: kinds + child indices + result kinds (not value ids)
        let h: u64 = match &e {
            Ev::ExecPoll { spurious, .. } => 1 + *spurious as u64,
            Ev::ExecRet(r) => 10 + r.kind() as u64,
            Ev::Poll(c) => 100 + *c as u64,
            Ev::Ret(c, r) => 10_000 + (*c as u64) * 8 + r.kind() as u64,
            Ev::Fire { c, latest, ctx, .. } => {
                1_000_000
                    + (*c as u64) * 16
                    + (*latest as u64) * 8
                    + match ctx {
                        FireCtx::Between => 0,
                        FireCtx::MidPoll(_) => 1,
                        FireCtx::AfterDrop => 2,
                        FireCtx::SelfNow => 3,
                        FireCtx::InDrop(_) => 4,
                    }
            }
            Ev::ParentWake { current, .. } => 20 + *current as u64,
            Ev::NodeWake(c) => 5_000_000 + *c as u64,
            Ev::DropChild(c) => 2_000_000 + *c as u64,
            Ev::DropRoot => 30,
            Ev::DropRootDone => 31,
            Ev::Op(s) => 3_000_000 + fnv(s.as_bytes()) % 1_000_000,
            Ev::Note(_) => 0,
        };
        if h != 0 {
            self.sig = (self.sig ^ h).wrapping_mul(0x100000001b3);
        }
        if self.keep_log {
            self.log.push(e);
        }
    }
    pub fn violate(&mut self, props: &[&'static str], msg: String) {
        if self.viol.len() < 32 {
            self.viol.push(Violation { props: props.to_vec(), msg });
        }
    }
    /// is `leaf` exempt from I1/I2/I6 right now (held back by zip/chain/wait_until, inside a finished
    /// sub-combinator, or an abandoned engine-C source)?
    pub fn inactive(&self, leaf: Cid) -> bool {
        if self.ch[leaf].exempt {
            return true;
        }
        let mut c = leaf;
        while let Some((p, i)) = self.ch[c].parent {
            let pn = &self.ch[p];
            if pn.last == Last::Done || pn.model.finished {
                return true;
            }
            match pn.fam {
                Fam::Zip => {
                    if pn.model.on_row.get(i).cloned().unwrap_or(false) {
                        return true;
                    }
                }
                Fam::Chain => {
                    if pn.model.on_cursor != i {
                        return true;
                    }
                }
                Fam::WaitF | Fam::WaitS => {
                    // child 0 = inner, child 1 = deadline
                    if i == 0 && !pn.model.on_deadline {
                        return true;
                    }
                }
                _ => {}
            }
            c = p;
        }
        false
    }
}

pub fn fnv(b: &[u8]) -> u64 {
    let mut h: u64 = 0xcbf29ce484222325;
    for x in b {
        h = (h ^ *x as u64).wrapping_mul(0x100000001b3);
    }
    h
}

thread_local! { pub static W: RefCell<World> = RefCell::new(World::new()); }

#[inline]
pub fn w<R>(f: impl FnOnce(&mut World) -> R) -> R {
    W.with(|x| f(&mut x.borrow_mut()))
}

/// Reset the world for a new execution, keeping cumulative statistics. Old wakers / log are dropped
/// outside the borrow.
pub fn reset(src: Src, keep_log: bool) {
    let old = w(|w| {
        let st = std::mem::take(&mut w.st);
        let mut n = World::new();
        n.st = st;
        n.src = src;
        n.keep_log = keep_log;
        std::mem::replace(w, n)
    });
    drop(old);
}

// ------------------------------------------------------------------------------------------------
// tracked values

pub struct Val {
    pub id: u64,
    pub magic: u64,
    #[cfg(feature = "payload")]
    pub heap: Box<u64>,
}
impl std::fmt::Debug for Val {
    fn fmt(&self, f: &mut std::fmt::Formatter<'_>) -> std::fmt::Result {
        write!(f, "v{}", self.id)
    }
}
impl std::fmt::Display for Val {
    fn fmt(&self, f: &mut std::fmt::Formatter<'_>) -> std::fmt::Result {
        write!(f, "v{}", self.id)
    }
}
impl std::error::Error for Val {}
impl Val {
    pub fn new(producer: Cid) -> Val {
        Val::packed(producer, None)
    }
    pub fn packed(producer: Cid, parts: Option<Box<[u64]>>) -> Val {
        let id = w(|w| {
            w.vals.push(ValRec { state: 1, producer, parts });
            w.st.values_created += 1;
            (w.vals.len() - 1) as u64
        });
        Val {
            id,
            magic: MAGIC ^ id,
            #[cfg(feature = "payload")]
            heap: Box::new(id),
        }
    }
    /// validate a value the harness was handed; returns its id
    pub fn check_live(&self, what: &str) -> u64 {
        let (id, magic) = (self.id, self.magic);
        w(|w| {
            if magic != MAGIC ^ id || id as usize >= w.vals.len() {
                w.violate(&["C02"], format!("{what}: received a value that no child produced (garbage id {id:#x})"));
            } else if w.vals[id as usize].state != 1 {
                w.violate(&["C02"], format!("{what}: received value v{id} which was already dropped"));
            }
        });
        #[cfg(feature = "payload")]
        {
            // touch the heap payload so that sanitizers see a use of freed / uninitialised memory
            let p = *self.heap;
            if p != id {
                w(|w| w.violate(&["C02"], format!("{what}: value v{id} has a corrupted payload {p:#x}")));
            }
        }
        id
    }
}
impl Drop for Val {
    fn drop(&mut self) {
        let (id, magic) = (self.id, self.magic);
        w(|w| {
            w.st.values_dropped += 1;
            if magic != MAGIC ^ id || id as usize >= w.vals.len() {
                w.violate(&["C02"], format!("a value that no child produced was dropped (garbage id {id:#x}): uninitialised storage treated as a value"));
                return;
            }
            match w.vals[id as usize].state {
                1 => w.vals[id as usize].state = 2,
                2 => w.violate(&["C02"], format!("value v{id} dropped twice")),
                _ => w.violate(&["C02"], format!("value v{id} in impossible state")),
            }
        });
    }
}

// ------------------------------------------------------------------------------------------------
// tiny JSON writer (the harness has no serde dependency so that it builds quickly under every tool)

pub fn jstr(s: &str) -> String {
    let mut o = String::with_capacity(s.len() + 2);
    o.push('"');
    for c in s.chars() {
        match c {
            '"' => o.push_str("\\\""),
            '\\' => o.push_str("\\\\"),
            '\n' => o.push_str("\\n"),
            '\t' => o.push_str("\\t"),
            c if (c as u32) < 0x20 => o.push_str(&format!("\\u{:04x}", c as u32)),
            c => o.push(c),
        }
    }
    o.push('"');
    o
}

pub fn fmt_res(r: &Res) -> String {
    match r {
        Res::Pend => "Pending".into(),
        Res::Ok(v) => format!("Ok(v{v})"),
        Res::Err(v) => format!("Err(v{v})"),
        Res::Item(v) => format!("Item(v{v})"),
        Res::End => "End".into(),
        Res::Panicked => "PANIC".into(),
    }
}

pub fn fmt_ev(e: &Ev) -> String {
    match e {
        Ev::ExecPoll { n, waker, spurious } => format!("exec: poll #{n} with parent waker w{waker}{}", if *spurious { " (spurious)" } else { "" }),
        Ev::ExecRet(r) => format!("exec: poll returned {}", fmt_res(r)),
        Ev::Poll(c) => format!("  child {c}: polled"),
        Ev::Ret(c, r) => format!("  child {c}: returned {}", fmt_res(r)),
        Ev::Fire { c, widx, latest, by_value, ctx } => format!(
            "fire waker #{widx} of child {c} ({}{}, {:?})",
            if *latest { "latest" } else { "stale" },
            if *by_value { ", by value" } else { "" },
            ctx
        ),
        Ev::ParentWake { waker, current } => format!("    -> parent waker w{waker} invoked ({})", if *current { "current" } else { "stale" }),
        Ev::NodeWake(c) => format!("    -> waker handed to inner combinator {c} invoked"),
        Ev::DropChild(c) => format!("  child {c}: dropped"),
        Ev::DropRoot => "exec: drop combinator".into(),
        Ev::DropRootDone => "exec: drop returned".into(),
        Ev::Op(s) => format!("op: {s}"),
        Ev::Note(s) => format!("note: {s}"),
    }
}
