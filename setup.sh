#!/bin/sh
# Offline build of every flavour the checks use (native x3, Miri x3, payload x3, ASan x3, TSan std).
# The checks rebuild on demand as well (keyed on a content hash of /repo and the harness), so this only
# front-loads the compile time.
set -e
cd "$(dirname "$0")"
export CARGO_NET_OFFLINE=true
exec ./check --build
