#!/usr/bin/env python3
"""dev helper: copy finished sub-agent mutations /tmp/mut/<P>/MUT/<k>/ into /verif/seeded/<P>-<k>/ (normalising demo_cmd)"""
import json, os, re, shutil, sys
for P in sys.argv[1:]:
    for k in ("1", "2", "3", "4", "5", "6", "7", "8", "9", "a", "b"):
        src = f"/tmp/mut/{P}/MUT/{k}"
        if not os.path.exists(os.path.join(src, "patch.diff")):
            continue
        dst = f"/verif/seeded/{P}-{k}"
        os.makedirs(dst, exist_ok=True)
        for f in ("patch.diff", "demo.rs"):
            shutil.copy(os.path.join(src, f), os.path.join(dst, f))
        m = json.load(open(os.path.join(src, "meta.json")))
        cmd = m.get("demo_cmd", "")
        cmd = re.sub(r"^\s*cp\s+\S+\s+tests/mut_demo\.rs\s*&&\s*", "", cmd)
        cmd = re.split(r"\s+\(", cmd)[0].strip()
        m["demo_cmd"] = cmd or "cargo test --offline --test mut_demo"
        m["origin"] = "independent sub-agent given only the property text and a scratch worktree"
        json.dump(m, open(os.path.join(dst, "meta.json"), "w"), indent=1)
        print("collected", dst, "| demo_cmd:", m["demo_cmd"])
