#!/usr/bin/env python3
"""dev helper: run one shard of fcv for some properties and print a digest"""
import json, subprocess, sys, os
cfg = os.environ.get('CFG', 'std')
binp = f'/verif/target/{cfg}/release/fcv'
props = sys.argv[1].split(',')
iters = sys.argv[2] if len(sys.argv) > 2 else '20000'
extra = sys.argv[3:]
for p in props:
    subprocess.run([binp, 'run', '--prop', p, '--iters', iters, '--out', '/tmp/o.json'] + extra, check=False)
    d = json.load(open('/tmp/o.json'))
    print(d['property'], d['config'], 'evals', d['evaluations'], 'nontriv', d['nontrivial'], 'sigs', d['distinct_sigs_in_shard'], 'viol', d['violating_executions'], 'inc', d['inconclusive'], 'wall', d['wall_s'])
    for v in d['violations'][:2]:
        print('  VIOL', v['case'][:300]); print('   ', v['messages'][:3]); print('   ', v['replay_args'])
    for k, v in d['other_property_notes'].items(): print('  other', k, v['count'], v['example'][:300])
    for m in d['inconclusive_examples']: print('  inc', m)
