#!/usr/bin/env python3
"""Regenerates /verif/MANIFEST.json from the table below (keeps the manifest consistent with ./check)."""
import json, os

ROOT = os.path.dirname(os.path.dirname(os.path.abspath(__file__)))

SWEEP_NOTE = " Both tiers also run the exhaustive small-scope sweep of this family (all scripts x all schedules for n <= 2, every container, 3 configurations) and an engine-T layer (the same reference model while the children's wakers are fired from other threads)."

COMMON_NOTE = (
    "Trusted base: the harness (scripted children, adversarial executor, event log, reference models in /verif/harness/src) and "
    "the generators' bounds (tuple arity <= 12, array lengths {0,1,2,3,4,5,8,13,23,64,65,257}, Vec lengths up to 257 (scale layer: up to 66 000), scripts <= 8 steps (scale layer: streams / histories / pipelines of up to 71 000 items), one "
    "level of nesting (two levels in a fifth of the nested cases); deliberately not observed: use of a combinator after a panic unwound out of it, panicking destructors, stack depth). Holds only for the executions generated; a timed-out shard or crashed tool is inconclusive."
)

# id -> (technique, level text, design ref, engine)
CHECKS = {
    "C01": ("runtime monitoring: online no-lost-wake-up invariant (I1) at quiescent points, Pending-justification (I2), bounded-progress oracle (I6) under a wake-only adversarial executor (random + exhaustive small-scope schedules); real threads firing wakers under Miri data-race/deadlock detection and ThreadSanitizer",
            "Every generated schedule (wakes between polls, mid-poll cross wakes, stale/repeated wakers, fresh parent waker per poll, spurious polls) over all families x containers x 3 feature configurations is executed against the real crate; the monitor fires if a woken pending child leaves the latest parent waker silent at a quiescent point, if a combinator reports Pending while it could progress, or if a wake() panics/deadlocks. Both tiers add an exhaustive small-scope sweep (every script and every schedule incl. mid-poll fires for all 42 flat shapes with n <= 2) and engine T: real threads firing the wakers natively and under Miri (data races, deadlock); thorough adds the n <= 3 budgeted sweep and ThreadSanitizer.", "5/C01, 13"),
    "C02": ("runtime monitoring: exactly-once accounting of tracked children/values (I5) under cancellation at random and at every poll count and a panic injected at random and at every leaf poll; Miri (UB, leaks, double free), ASan+LSan, valgrind memcheck on the same workloads",
            "Tracked values and children are registered at creation and at drop; after every execution (completion, cancellation after k polls, injected panic) the monitor requires each to be dropped exactly once, every received value to be live and produced by a child, and every owned child to be dropped before drop(combinator) returns. A systematic sweep re-runs each of its cases with a drop after EVERY poll count and a panic at EVERY leaf poll. The same workloads with heap-payload values run under Miri in quick, plus ASan/LSan, valgrind and engine T (drop racing with wake-ups from other threads, natively and under Miri) in thorough.", "5/C02, 13"),
    "C03": ("runtime monitoring: poll-discipline invariant (I3) asserted inside every scripted child poll (phase + completion state)",
            "Each child poll is checked online: never after the child completed or was dropped, only while a harness-issued poll of the owning combinator is in progress (never in construction, group operations, or drop), never after the combinator produced its final result.", "5/C03"),
    "C20": ("runtime monitoring: I2 (every owned, not-held-back child polled once Pending is returned) + progress oracle I6 with forced never-completing siblings",
            "Workloads force 1..n-1 never-completing children at random positions; whenever the combinator returns Pending every owned active child must have been polled, and at quiescence every other child must have run to completion and (race/race_ok/merge/groups) its result delivered per the reference model.", "5/C20"),
    "C04": ("runtime monitoring: per-poll reference model of join (positional outputs, resolves in the poll of the last completion)", "Each poll's return value is compared with a reference model fed by what the children actually returned in that poll; output ids are unique so position mix-ups are unambiguous; array and Vec lengths cross the 22/23 and 64/65 boundaries.", "5/C04"),
    "C05": ("runtime monitoring: per-poll reference model of try_join (first observed error short-circuits; values dropped not returned)", "Per-poll model comparison plus exactly-once accounting of the values produced by siblings and the no-poll-after-decision rule.", "5/C05"),
    "C06": ("runtime monitoring: per-poll reference model of race (first child seen Ready wins, nothing polled afterwards, losers dropped unfinished with the race)", "Per-poll model comparison; several children ready in the same poll are generated on purpose.", "5/C06"),
    "C07": ("runtime monitoring: per-poll reference model of race_ok (first Ok wins; aggregate error positional, only when all failed)", "Per-poll model comparison with unique error ids, out-of-order failures induced by the schedule.", "5/C07"),
    "C08": ("runtime monitoring: per-poll reference model of merge + whole-run exactly-once / per-input order check over unique item ids", "Per-poll model (first observed item is yielded, None exactly when the last input ends, zero inputs end at once) plus multiset and order checks.", "5/C08"),
    "C09": ("runtime monitoring: per-poll reference model of zip (row buffer, hold-back, end with the shortest input) + items-taken bound", "Per-poll row model, the hold-back rule asserted inside child polls, at most rows+1 items taken per input, unmatched items dropped (I5).", "5/C09"),
    "C10": ("runtime monitoring: per-poll reference model of chain (cursor; only the current input may be polled)", "Cursor model; polling a non-current input is flagged inside the child's poll.", "5/C10"),
    "C11": ("runtime monitoring: operation-history checking of FutureGroup against a key->member model after every operation and every poll", "Random histories of with_capacity/new/from_iter, insert/remove/reserve/extend (iterators with exact, loose and absent size hints)/poll/wake with heavy slot reuse; set view (len/is_empty/contains_key/capacity) compared after every operation; yields compared with the per-poll model, keyed and plain.", "5/C11"),
    "C12": ("runtime monitoring: operation-history checking of StreamGroup against a key->member model after every operation and every poll", "As C11 for streams: items exactly once and in member order, members forgotten and dropped in the poll they end or at removal.", "5/C12"),
    "C13": ("runtime monitoring: closure-invocation log + live-closure-future gauge checked against the effective limit at every creation; structured-completion and cancellation checks", "ConcurrentStream pipelines with scripted source and per-item futures; exactly one closure call per item, gauge <= limit at every creation, all closure futures Done at resolution, all dropped when the operation is dropped early.", "5/C13"),
    "C14": ("runtime monitoring: outcome oracle for try_for_each / collect<Result> over the recorded error events and source-item events", "Ok only if no work future returned Err and every item was processed; Err carries an error some future returned; no source item taken after the first error event; in-flight futures dropped with the operation.", "5/C14"),
    "C15": ("runtime monitoring: adapter-stack oracle (multiset of collected items, map closure counts, enumerate index = source position, take = first min(n,len))", "29 adapter stacks x 5 terminals x 2 sources x 4 legal size_hint reports of the source; unique item positions make multiset and index checks unambiguous.", "5/C15"),
    "C16": ("runtime monitoring: selective-polling invariant (I4) asserted inside every child poll in the std configuration", "A child that last returned Pending may be polled only if a waker handed to it (or to an earlier occupant of its group slot) fired since its previous poll started; spurious polls and single-child wake-ups are generated on purpose, sizes up to 257.", "5/C16"),
    "C17": ("runtime monitoring: provenance log of merge yields; sliding-window fairness oracle for an always-ready input", "One input always has an item; every window of N consecutive yields must contain it, for every position, container, N and configuration.", "5/C17"),
    "C19": ("runtime monitoring: event-log oracle for wait_until (no inner poll before the deadline resolves, no deadline poll after, same-poll hand-over); exhaustive small-scope schedule enumeration", "Scripted deadline and inner future/stream; ordering rules asserted inside child polls and per poll.", "5/C19"),
}

checks = []
EXTRA = {'C13': ' Both tiers also run an exhaustive small-scope sweep of pipelines (fcv dfsc: every adapter stack x for_each x source kind, source length <= 2 (thorough: <= 3), limits 1|2|none, every readiness pattern of source / map / closure futures and every wake order).', 'C02': ' Workloads also vary what only inputs can show: Vec inputs with spare capacity, child types without drop glue, zero-sized outputs/items (engine Z), children whose destructor wakes a waker.', 'C03': ' An engine-T layer repeats the invariant with wakers fired from other threads. Streams are additionally polled by the consumer after their final None (stale wakes in between); a quarter of the std shards run a build without debug assertions.', 'C11': " Both tiers also run an exhaustive small-scope sweep of operation histories (fcv dfsb: every history of <= 8 operations over <= 3 members with <= 1 Pending step each, plain and keyed, with_capacity(0|1), 2 configurations; evidence records exhausted=true only if every odometer wrapped). 'Mass' histories (11-18 members inserted in a burst, degenerate scripts) make ten and more members finish in one poll; an engine-T layer fires the members' wakers from other threads.", 'C12': " Both tiers also run an exhaustive small-scope sweep of operation histories (fcv dfsb: every history of <= 7 operations over <= 2 members with <= 1 Pending step and <= 1 item each, plain and keyed, with_capacity(0|1), 2 configurations). 'Mass' histories (11-18 members inserted in a burst, degenerate scripts) make ten and more members end in one poll; an engine-T layer fires the members' wakers from other threads.", 'C14': ' Both tiers also run an exhaustive small-scope sweep of pipelines (fcv dfsc: every adapter stack x fallible terminal x source kind, source length <= 2 (thorough: <= 3), every readiness pattern of source / map / work futures, every Ok/Err assignment, every wake order). After the first Err no in-flight work future may be driven to completion, and the operation must not remain Pending at quiescence even if siblings never complete.', 'C15': ' Both tiers also run an exhaustive small-scope sweep of pipelines (fcv dfsc: 29 adapter stacks x 3 terminals x 2 source kinds, source length <= 2 (thorough: <= 3), limits 1|2|none, takes 0|1|2|100, every readiness pattern and wake order). Items taken OUT OF THE SOURCE are bounded by take(n) as well (an item pulled and thrown away is lost); non-fused sources, huge limits, zero-sized items.', 'C16': ' An engine-T layer checks the same invariant under wake-ups from other threads (announced / in-flight wake-call accounting).', 'C17': ' 4 % long runs (530-830 yields), one or two always-ready inputs, Vec merges of 24..129 inputs, and an engine-T layer (fairness under wake-ups from other threads).', 'C20': " An engine-T layer repeats this with the siblings' wakers fired from other threads.", 'C19': ' Both tiers also run the exhaustive small-scope sweep of wait_until over a future and over a stream (every deadline / inner script with <= 1 Pending step, every schedule incl. mid-poll fires and a spurious poll). Flat wait_until streams also get non-fused inner streams (the consumer polls on after None and the wrapper must forward), and inner streams with exact size hints; an engine-T layer fires the deadline\'s and the inner child\'s wakers from other threads.'}

for pid, (tech, text, ref) in CHECKS.items():
    text += EXTRA.get(pid, "")
    if pid in ("C01", "C02", "C04", "C05", "C06", "C07", "C08", "C09", "C10", "C11", "C12", "C13", "C15", "C16", "C17", "C20"):
        text += " A scale layer (engine S) adds few, big executions with whole-run oracles: containers of 300..66 000 children, streams / group histories / pipelines of up to 71 000 items, limits above 1024, stale wakers invoked after drain and after drop."
    if pid in ("C11", "C12", "C13", "C14", "C15"):
        tech += "; exhaustive small-scope enumeration of " + ("operation histories" if pid in ("C11", "C12") else "pipelines, readiness patterns and wake orders")
    if pid in ("C04", "C05", "C06", "C07", "C08", "C09", "C10"):
        text += SWEEP_NOTE
        tech += "; exhaustive small-scope schedule enumeration"
    checks.append(dict(
        property_id=pid,
        quick_cmd=f"./check {pid} quick",
        thorough_cmd=f"./check {pid} thorough",
        evidence_file=f"evidence/{pid}.json",
        replay_cmd_template="./check --replay {path}",
        engine="fcv",
        level_claimed=dict(category="exploration", text=text, design_ref=f"DESIGN.md section {ref}"),
        level_note=COMMON_NOTE,
        technique=tech,
    ))

manifest = dict(
    version=1,
    setup_cmd="./setup.sh",
    hooks=dict(
        guard="--cfg futures_concurrency_verif",
        enable="no hooks are needed: every monitor observes the public poll / wake / drop interface from a harness crate that path-depends on /repo (features fc-std / fc-alloc / none select the configuration of the library under test)",
        baseline_off_cmd="cd /repo && (cargo nextest run --workspace --no-fail-fast --tool-config-file pb:/w/lib/nextest.toml --profile pb --test-threads 8 --offline || cargo test --workspace --no-fail-fast --offline)",
        source_commits=[],
        add_only=True,
    ),
    engines=[
        dict(name="fcv", path="harness/", serves_properties=list(CHECKS.keys()), kind_free_text="Rust harness crate: scripted children + adversarial executor + event log + reference models (engines A static shapes, B group histories, C concurrent-stream pipelines, T real threads, Z zero-sized types, S scale: few big executions past the 256 / 1024 / 4096 / 65 536 thresholds), run natively, under Miri, ASan, valgrind and TSan by ./check; fcv dfs / dfsb / dfsc = exhaustive small-scope sweeps (flat shapes / group histories / pipelines), fcv allk = every-crash-point sweep"),
    ],
    checks=checks,
    notes="Runtime monitoring only. ./check rebuilds the harness against /repo's working tree (content-hash keyed). Three genuine defects were repaired in /repo with 'fix:' commits (see known_findings.json and DESIGN.md section 8).",
    not_applicable=[
        dict(property_id="C18", reason="Send/Sync auto-trait preservation is a type-level fact decided by the trait solver for every instantiation; no execution observes it and a regression is observationally indistinguishable at run time (DESIGN.md section 7). Deciding it needs a compile-time probe, which is a different technique family."),
    ],
)
with open(os.path.join(ROOT, "MANIFEST.json"), "w") as f:
    json.dump(manifest, f, indent=1)
print("wrote MANIFEST.json with", len(checks), "checks")
