#!/usr/bin/env python3
"""import_seed.py <round-dir> <suffixes>  — copy sub-agents' seed_out/{1,2} into seeded/<Cxx>-<suffix>/ (dev tool)"""
import json, os, shutil, sys
ROOT = os.path.dirname(os.path.dirname(os.path.abspath(__file__)))
rd, suf = sys.argv[1], sys.argv[2].split(",")
for p in sorted(os.listdir(rd)):
    so = os.path.join(rd, p, "seed_out")
    if not os.path.isdir(so):
        continue
    for n, sfx in zip(("1", "2"), suf):
        src = os.path.join(so, n)
        if not all(os.path.exists(os.path.join(src, f)) for f in ("patch.diff", "demo.rs", "meta.json")):
            continue
        dst = os.path.join(ROOT, "seeded", f"{p}-{sfx}")
        if os.path.exists(dst):
            continue
        os.makedirs(dst)
        for f in ("patch.diff", "demo.rs"):
            shutil.copy(os.path.join(src, f), dst)
        m = json.load(open(os.path.join(src, "meta.json")))
        m.setdefault("property", p)
        m.setdefault("demo_cmd", "cargo test --offline --test mut_demo")
        m["origin"] = "independent sub-agent given only the property text and a scratch worktree"
        json.dump(m, open(os.path.join(dst, "meta.json"), "w"), indent=1)
        print("imported", dst)
