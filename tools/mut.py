#!/usr/bin/env python3
"""dev helper: apply a textual mutation to /repo, rebuild one config, run some properties, always revert.
usage: mut.py <file> <old> <new> <props> [iters] [extra fcv args...]   (env CFG=std|alloc|nostd)"""
import subprocess, sys, os
f, old, new, props = sys.argv[1:5]
iters = sys.argv[5] if len(sys.argv) > 5 else '20000'
extra = sys.argv[6:]
cfg = os.environ.get('CFG', 'std')
p = '/repo/' + f
s = open(p).read()
assert s.count(old) >= 1, 'pattern not found'
try:
    open(p, 'w').write(s.replace(old, new, 1))
    feat = {'std': ['--features', 'fc-std'], 'alloc': ['--features', 'fc-alloc'], 'nostd': []}[cfg]
    r = subprocess.run(['cargo', 'build', '--release', '--target-dir', f'/verif/target/{cfg}'] + feat, cwd='/verif/harness', capture_output=True, text=True, env=dict(os.environ, CARGO_NET_OFFLINE='true'))
    if r.returncode != 0:
        print('BUILD FAILED'); print(r.stderr[-2000:])
    else:
        subprocess.run(['/verif/tools/devrun.py', props, iters] + extra)
finally:
    subprocess.run(['git', '-C', '/repo', 'checkout', '--', '.'])
    print('reverted:', subprocess.run(['git', '-C', '/repo', 'status', '--short'], capture_output=True, text=True).stdout.strip() or 'clean')
