#!/usr/bin/env python3
"""seeded.py — confirm and use the seeded (deliberately broken) changes kept under /verif/seeded/<id>/.

  seeded.py verify <id>...        in a scratch worktree of /repo (created under /tmp, removed afterwards):
                                  the existing suite passes with the patch, the demonstration fails with it and
                                  passes without it; writes seeded/<id>/verified.json
  seeded.py run <id>...|ALL [--tier quick|thorough] [--props C01,C05|all|own] [--seed N] [--worktree --jobs N]
                                  apply the patch to /repo, run ./check for the properties, ALWAYS undo the
                                  patch; evidence/replays of these runs go to target/seeded-out, never to evidence/;
                                  writes seeded/<id>/detection.json
  seeded.py table                 print the catch matrix from the detection.json files
"""
import json, os, re, shutil, subprocess, sys, time

ROOT = os.path.dirname(os.path.dirname(os.path.abspath(__file__)))
SEEDED = os.path.join(ROOT, "seeded")
REPO = "/repo"
ALL = ["C01", "C02", "C03", "C20", "C04", "C05", "C06", "C07", "C08", "C09", "C10", "C11", "C12", "C13", "C14", "C15", "C16", "C17", "C19"]
ENV = dict(os.environ, CARGO_NET_OFFLINE="true")


def sh(cmd, **kw):
    return subprocess.run(cmd, text=True, capture_output=True, **kw)


def meta(i):
    return json.load(open(os.path.join(SEEDED, i, "meta.json")))


def verify(i):
    d = os.path.join(SEEDED, i)
    m = meta(i)
    wt = "/tmp/fcv-seedchk"
    sh(["git", "-C", REPO, "worktree", "remove", "--force", wt])
    shutil.rmtree(wt, ignore_errors=True)
    r = sh(["git", "-C", REPO, "worktree", "add", "--detach", wt, "HEAD"])
    assert r.returncode == 0, r.stderr
    res = dict(id=i, head=sh(["git", "-C", REPO, "rev-parse", "HEAD"]).stdout.strip())
    try:
        tgt = "/tmp/fcv-seedchk-target"  # shared warm target dir across verifications (removed by `verify` of the last id)
        env = dict(ENV, CARGO_TARGET_DIR=tgt)
        demo_cmd = m.get("demo_cmd") or "cargo test --offline --test mut_demo"
        shutil.copy(os.path.join(d, "demo.rs"), os.path.join(wt, "tests", "mut_demo.rs"))
        r0 = subprocess.run(demo_cmd, shell=True, cwd=wt, env=env, text=True, capture_output=True, timeout=1800)
        res["demo_passes_without_patch"] = r0.returncode == 0
        a = sh(["git", "-C", wt, "apply", os.path.join(d, "patch.diff")])
        res["patch_applies"] = a.returncode == 0
        if a.returncode == 0:
            try:
                r1 = subprocess.run(demo_cmd, shell=True, cwd=wt, env=env, text=True, capture_output=True, timeout=600)
                res["demo_fails_with_patch"] = r1.returncode != 0
                res["demo_failure_tail"] = (r1.stdout + r1.stderr)[-1200:]
            except subprocess.TimeoutExpired:
                res["demo_fails_with_patch"] = True
                res["demo_failure_tail"] = "demo timed out after 600 s (hang)"
            os.remove(os.path.join(wt, "tests", "mut_demo.rs"))
            r2 = subprocess.run("cargo test --workspace --no-fail-fast --offline", shell=True, cwd=wt, env=env, text=True, capture_output=True, timeout=3600)
            res["suite_passes_with_patch"] = r2.returncode == 0
            res["suite_summary"] = re.findall(r"^test result: .*$", r2.stdout, re.M)
            for feats in ("--no-default-features", "--no-default-features --features alloc"):
                rb = subprocess.run(f"cargo build --offline --lib {feats}", shell=True, cwd=wt, env=env, text=True, capture_output=True, timeout=1800)
                res["builds " + feats] = rb.returncode == 0
        res["confirmed"] = bool(res.get("patch_applies") and res.get("demo_passes_without_patch") and res.get("demo_fails_with_patch") and res.get("suite_passes_with_patch"))
    finally:
        sh(["git", "-C", REPO, "worktree", "remove", "--force", wt])
        shutil.rmtree(wt, ignore_errors=True)
    json.dump(res, open(os.path.join(d, "verified.json"), "w"), indent=1)
    print(i, "confirmed" if res["confirmed"] else "NOT CONFIRMED", {k: v for k, v in res.items() if isinstance(v, bool)})
    return res


def run(i, tier, props, seed, worktree=False):
    """worktree=False: apply the patch to /repo itself, run the registered check commands, undo the patch.
    worktree=True: same checks against a scratch worktree (FCV_REPO), so that several changes can be tried at once."""
    d = os.path.join(SEEDED, i)
    m = meta(i)
    own = m["property"]
    plist = ALL if props == "all" else [own] if props == "own" else props.split(",")
    repo = REPO
    base = f"/tmp/fcv-seed/{i}"
    if worktree:
        sh(["git", "-C", REPO, "worktree", "remove", "--force", base + "/repo"])
        shutil.rmtree(base, ignore_errors=True)
        os.makedirs(base)
        r = sh(["git", "-C", REPO, "worktree", "add", "--detach", base + "/repo", "HEAD"])
        assert r.returncode == 0, r.stderr
        repo = base + "/repo"
        outdir = base + "/out"
    else:
        st = sh(["git", "-C", REPO, "status", "--porcelain", "--untracked-files=no"]).stdout.strip()
        assert st == "", "refusing: /repo has uncommitted changes:\n" + st
        outdir = os.path.join(ROOT, "target", "seeded-out", i)
    shutil.rmtree(outdir, ignore_errors=True)
    os.makedirs(outdir, exist_ok=True)
    det = dict(id=i, property=own, tier=tier, seed=seed, mode="worktree" if worktree else "/repo", results={})
    a = sh(["git", "-C", repo, "apply", os.path.join(d, "patch.diff")])
    try:
        assert a.returncode == 0, "patch does not apply: " + a.stderr
        env = dict(ENV, FCV_EVIDENCE_DIR=outdir, FCV_REPLAY_DIR=outdir, VERIF_SEED=str(seed))
        if worktree:
            env.update(FCV_REPO=repo, FCV_SCRATCH=base + "/scratch")
        for p in plist:
            t0 = time.time()
            r = sh([os.path.join(ROOT, "check"), p, tier], cwd=ROOT, env=env)
            viol = re.findall(r"^VIOLATION property=(\S+) replay=(\S+)", r.stdout, re.M)
            first = ""
            mm = re.search(r"^VIOLATION.*\n((?:  .*\n){1,3})", r.stdout, re.M)
            if mm:
                first = mm.group(1).strip()[:700]
            det["results"][p] = dict(exit=r.returncode, violations=len(viol), wall_s=round(time.time() - t0, 1), first=first, harness_error="HARNESS-ERROR" in r.stdout, inconclusive=len(re.findall(r"^INCONCLUSIVE", r.stdout, re.M)))
            print(f"  {i} vs {p} {tier}: exit={r.returncode} violations={len(viol)} ({time.time() - t0:.0f}s) {first[:160]}", flush=True)
    finally:
        if worktree:
            sh(["git", "-C", REPO, "worktree", "remove", "--force", repo])
            shutil.rmtree(base, ignore_errors=True)
        else:
            sh(["git", "-C", REPO, "checkout", "--", "."])
            left = sh(["git", "-C", REPO, "status", "--porcelain", "--untracked-files=no"]).stdout.strip()
            print("  /repo restored:", "clean" if not left else "DIRTY " + left)
    det["caught_by"] = [p for p, r in det["results"].items() if r["exit"] == 1 and r["violations"] > 0]
    det["caught_by_own_property_check"] = own in det["caught_by"]
    # merge with earlier detection results (other tiers / props)
    path = os.path.join(d, "detection.json")
    old = {}
    if os.path.exists(path):
        try:
            old = json.load(open(path))
        except ValueError:
            old = {}
    runs = old.get("runs", [])
    runs = [r for r in runs if not (r["tier"] == tier and r["seed"] == seed and set(r["results"]) <= set(det["results"]))]
    runs.append(det)
    caught = sorted({p for r in runs for p in r["caught_by"]})
    json.dump(dict(id=i, property=own, caught_by=caught, caught_by_own_property_check=own in caught, runs=runs), open(path, "w"), indent=1)
    if not worktree:
        shutil.rmtree(outdir, ignore_errors=True)
    return det


def table_md():
    """markdown catch matrix for DESIGN.md section 14"""
    print("| change | property | what it does (needs) | confirmed | caught by (quick checks) | own check |")
    print("|---|---|---|---|---|---|")
    for i in sorted(os.listdir(SEEDED)):
        d = os.path.join(SEEDED, i)
        if not os.path.isdir(d) or not os.path.exists(os.path.join(d, "meta.json")):
            continue
        m = meta(i)
        det = json.load(open(os.path.join(d, "detection.json"))) if os.path.exists(os.path.join(d, "detection.json")) else {}
        ver = json.load(open(os.path.join(d, "verified.json"))) if os.path.exists(os.path.join(d, "verified.json")) else {}
        summ = re.sub(r"\s+", " ", m.get("summary", ""))[:150].replace("|", "/")
        files = ",".join(os.path.basename(f) if "/" not in f[4:] else f[4:] for f in m.get("files_touched", []))[:60]
        caught = ", ".join(det.get("caught_by", [])) or "—"
        own = "yes" if det.get("caught_by_own_property_check") else ("no" if det else "not run")
        print(f"| {i} | {m['property']} | `{files}`: {summ} | {'yes' if ver.get('confirmed') else 'NO'} | {caught} | {own} |")


def table():
    rows = []
    for i in sorted(d for d in os.listdir(SEEDED) if os.path.isdir(os.path.join(SEEDED, d))):
        p = os.path.join(SEEDED, i, "detection.json")
        if not os.path.exists(p):
            rows.append((i, "?", "-", "not run"))
            continue
        d = json.load(open(p))
        tiers = sorted({r["tier"] for r in d["runs"]})
        rows.append((i, d["property"], ",".join(d["caught_by"]) or "MISSED", "/".join(tiers)))
    for r in rows:
        print("%-28s %-4s %-40s %s" % r)


def main():
    a = sys.argv[1:]
    if not a:
        print(__doc__)
        return 2
    cmd, rest = a[0], a[1:]
    opts = {"--tier": "quick", "--props": "own", "--seed": "1", "--jobs": "1"}
    flags = set()
    ids = []
    k = 0
    while k < len(rest):
        if rest[k] == "--worktree":
            flags.add("worktree")
            k += 1
        elif rest[k] in opts:
            opts[rest[k]] = rest[k + 1]
            k += 2
        else:
            ids.append(rest[k])
            k += 1
    if cmd == "verify":
        for i in ids:
            verify(i)
        if not os.environ.get("FCV_KEEP_SEEDCHK_TARGET"):
            shutil.rmtree("/tmp/fcv-seedchk-target", ignore_errors=True)
    elif cmd == "run":
        if ids == ["ALL"]:
            ids = sorted(d for d in os.listdir(SEEDED) if os.path.isdir(os.path.join(SEEDED, d)))
        wt = "worktree" in flags
        from concurrent.futures import ThreadPoolExecutor

        with ThreadPoolExecutor(max_workers=int(opts["--jobs"]) if wt else 1) as ex:
            list(ex.map(lambda i: run(i, opts["--tier"], opts["--props"], int(opts["--seed"]), wt), ids))
    elif cmd == "table":
        table()
    elif cmd == "table-md":
        table_md()
    return 0


if __name__ == "__main__":
    sys.exit(main())
