#!/usr/bin/env python3
"""validate MANIFEST.json and evidence/*.json against the schemas"""
import json, sys, glob
try:
    import jsonschema
except ImportError:
    sys.path.insert(0, '/opt/veriftools/pyvenv/lib/python3.11/site-packages')
    import jsonschema
ok = True
def val(path, schema):
    global ok
    try:
        jsonschema.validate(json.load(open(path)), json.load(open(schema)))
        print('ok  ', path)
    except Exception as e:
        ok = False
        print('FAIL', path, str(e)[:300])
val('/verif/MANIFEST.json', '/root/.vp/MANIFEST.schema.json')
for f in sorted(glob.glob('/verif/evidence/*.json')):
    val(f, '/root/.vp/EVIDENCE.schema.json')
sys.exit(0 if ok else 1)
